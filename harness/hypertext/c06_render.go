//go:build verif

package hypertext

import (
	"servitor/verifrt"

	"golang.org/x/net/html"
)

// VerifC06Render: Markup.Render of nested block structures with symbolic text
// at every width from negative to small positive never panics.
func VerifC06Render() {
	n := verifrt.Choice("textlen", verifrt.Param("chars", 2)+1)
	t := func() *html.Node { return vText(vContentText("t", n)) }
	var tree []*html.Node
	switch verifrt.Choice("shape", 10) {
	case 0:
		tree = []*html.Node{vEl("blockquote", nil, vEl("blockquote", nil, vEl("blockquote", nil, t(), vEl("hr", nil))))}
	case 1:
		tree = []*html.Node{vEl("ul", nil, vEl("li", nil, vEl("ul", nil, vEl("li", nil, t()), vEl("p", nil, t()))))}
	case 2:
		tree = []*html.Node{vEl("h6", nil, vEl("blockquote", nil, vEl("pre", nil, t())))}
	case 3:
		tree = []*html.Node{vEl("blockquote", nil, vEl("img", vAttr("src", "https://x/i", "alt", "a"+vContentText("alt", 1))))}
	case 4:
		tree = []*html.Node{vEl("pre", nil, vEl("code", nil, t())), vEl("hr", nil)}
	case 5:
		tree = []*html.Node{vEl("ul", nil, vText("stray"), vEl("li", nil, vEl("h3", nil, t())))}
	case 6:
		tree = []*html.Node{vEl("a", vAttr("href", "https://x/y"), vEl("iframe", vAttr("src", "https://x/f", "title", ""))), t()}
	case 7:
		tree = []*html.Node{vEl("h1", nil, vEl("h2", nil, vEl("h3", nil, vEl("h4", nil, vEl("h5", nil, t())))))}
	case 8:
		tree = []*html.Node{vEl("video", vAttr("alt", "v")), vEl("audio", vAttr("src", "https://x/a")), vEl("custom-tag", nil, t())}
	default:
		tree = []*html.Node{{Type: html.CommentNode, Data: "c"}, vEl("div", nil, vEl("br", nil), t(), vEl("br", nil))}
	}
	m := &Markup{tree: tree, cached: "", cachedWidth: 1 << 40}
	width := verifrt.Int("width", -8, verifrt.Param("maxw", 4))
	out := m.Render(width)
	verifrt.Assert(verifrt.CleanOutput(out), "rendered-output-clean")
	verifrt.Observe("out", out)
	verifrt.Reach("end")
}
