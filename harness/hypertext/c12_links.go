//go:build verif

package hypertext

import (
	"servitor/verifrt"

	"golang.org/x/net/html"
)

// VerifC12Hypertext: numbering 1..N without gaps or repeats, and the number
// next to a label opens that label's target, for symbolic tree shapes and
// widths.
func VerifC12Hypertext() {
	g := &vLinkGen{targets: map[byte]string{}, budget: verifrt.Param("nodes", 4)}
	var roots []*html.Node
	n := 1 + verifrt.Choice("nroots", verifrt.Param("roots", 2))
	for i := 0; i < n && g.budget > 0; i++ {
		roots = append(roots, g.node(verifrt.Param("depth", 2)))
	}
	width := verifrt.Int("width", 1, verifrt.Param("maxw", 12))
	rendered, links := renderWithLinks(roots, width)
	sc := verifrt.Parse(rendered)
	verifrt.Assert(sc.OK, "render-well-formed")
	verifrt.Assert(sc.NeutralAtBreaks(), "render-neutral-at-line-ends")
	nums, labels := vNumbers(sc)
	N := g.next
	verifrt.Assert(len(links) == N, "one-link-entry-per-link-element")
	// numbers shown are exactly 1..N once each
	seen := make([]int, N+2)
	inRange := true
	for _, k := range nums {
		if k < 1 || k > N {
			inRange = false
		} else {
			seen[k]++
		}
	}
	verifrt.Assert(inRange, "numbers-within-1..N")
	once := true
	for k := 1; k <= N; k++ {
		once = once && seen[k] == 1
	}
	verifrt.Assert(once, "numbers-1..N-each-shown-once")
	// the number after label L opens L's target
	agree := true
	for i, k := range nums {
		if k >= 1 && k <= len(links) && labels[i] != 0 && !g.unlabelled[k] {
			agree = agree && links[k-1] == g.targets[labels[i]]
		}
	}
	verifrt.Assert(agree, "number-next-to-label-opens-that-target")
	fits := true
	for _, l := range sc.Lines {
		fits = fits && len(l) <= width
	}
	verifrt.Assert(fits, "render-lines-within-width")
	verifrt.Observe("rendered", rendered)
	verifrt.Reach("end")
}
