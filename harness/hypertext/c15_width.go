//go:build verif

package hypertext

import (
	"servitor/verifrt"

	"golang.org/x/net/html"
)

// vContentChar: what can reach a text node after GetString's scrubbing:
// printable ASCII, space, newline.
func vContentText(name string, n int) string {
	s := ""
	for i := 0; i < n; i++ {
		b := verifrt.Byte(name)
		verifrt.Assume(verifrt.All(b < 0x7f, verifrt.Any(b >= 0x20, b == '\n')))
		s += string(rune(b))
	}
	return s
}

func c15Tree() []*html.Node {
	n := verifrt.Choice("textlen", verifrt.Param("chars", 3)+1)
	t := func() *html.Node { return vText(vContentText("t", n)) }
	switch verifrt.Choice("shape", 12) {
	case 0:
		return []*html.Node{t()}
	case 1:
		return []*html.Node{vEl("p", nil, t())}
	case 2:
		return []*html.Node{vEl("blockquote", nil, vEl("p", nil, t()))}
	case 3:
		return []*html.Node{vEl("pre", nil, t())}
	case 4:
		return []*html.Node{vEl("ul", nil, vEl("li", nil, t()), vEl("li", nil, vText("b")))}
	case 5:
		return []*html.Node{vEl("h1", nil, t())}
	case 6:
		return []*html.Node{vEl("a", vAttr("href", "https://x/y"), t())}
	case 7:
		return []*html.Node{t(), vEl("br", nil), vText("c d")}
	case 8:
		return []*html.Node{vEl("p", nil, vText("a")), vEl("hr", nil), t()}
	case 9:
		return []*html.Node{vEl("img", vAttr("src", "https://x/i", "alt", "alt"+vContentText("alt", 1)))}
	case 10:
		return []*html.Node{vEl("blockquote", nil, vEl("blockquote", nil, t()))}
	default:
		return []*html.Node{vEl("code", nil, t()), vEl("unknown", nil, t())}
	}
}

// VerifC15HypertextWidth: no rendered line is longer than the width.
func VerifC15HypertextWidth() {
	tree := c15Tree()
	width := verifrt.Int("width", 1, verifrt.Param("maxw", 8))
	out, _ := renderWithLinks(tree, width)
	sc := verifrt.Parse(out)
	verifrt.Assert(sc.OK, "render-well-formed")
	fits := true
	for _, l := range sc.Lines {
		fits = verifrt.All(fits, len(l) <= width)
	}
	verifrt.Assert(fits, "render-lines-within-width")
	verifrt.Assert(sc.NeutralAtBreaks(), "render-neutral-at-line-ends")
	verifrt.Observe("out", out)
	verifrt.Reach("end")
}

// ---- cache lemma. Under the engine renderWithLinks is replaced by an
// injective function of the width alone (its side condition - renderWithLinks
// depends only on tree and width - is what the width harness exercises); the
// widths are unconstrained 64-bit integers.

func encWidth(w int) string {
	return string([]byte{byte(w), byte(w >> 8), byte(w >> 16), byte(w >> 24), byte(w >> 32), byte(w >> 40), byte(w >> 48), byte(w >> 56)})
}

func VerifStubRender(nodes []*html.Node, width int) (string, []string) {
	return encWidth(width), []string{}
}

func VerifC15HypertextCache() {
	tree := []*html.Node{vEl("p", nil, vText("hello wide world"))}
	cw := int(verifrt.Int64("cachedWidth"))
	pre, _ := renderWithLinks(tree, cw)
	m := &Markup{tree: tree, cached: pre, cachedWidth: cw}
	for i := 0; i < verifrt.Param("calls", 3); i++ {
		w := int(verifrt.Int64("w"))
		got := m.Render(w)
		ref, _ := renderWithLinks(tree, w)
		verifrt.Assert(got == ref, "render-equals-cache-free-rendering")
		verifrt.Assert(m.cachedWidth == w && m.cached == ref, "cache-invariant-reestablished")
	}
	m2, _, err := NewMarkup("<p>hello wide world</p>")
	ref80, _ := renderWithLinks(m2.tree, 80)
	verifrt.Assert(err == nil && m2.cachedWidth == 80 && m2.cached == ref80, "constructor-establishes-cache-invariant")
	verifrt.Reach("end")
}

// VerifC15HypertextCacheReal: the cache lemma on the real renderer.
func VerifC15HypertextCacheReal() {
	var tree []*html.Node
	switch verifrt.Choice("doc", 3) {
	case 0:
		tree = []*html.Node{vText("\n"), vEl("p", nil, vText("alpha beta gamma")), vText("\n\n")}
	case 1:
		tree = []*html.Node{vEl("blockquote", nil, vEl("p", nil, vText("quoted words here"))), vEl("hr", nil)}
	default:
		tree = []*html.Node{vEl("ul", nil, vEl("li", nil, vText("one two")), vEl("li", nil, vText("three")))}
	}
	maxw := verifrt.Param("maxw", 12)
	cw := verifrt.Int("cachedWidth", 1, maxw)
	pre, _ := renderWithLinks(tree, cw)
	m := &Markup{tree: tree, cached: pre, cachedWidth: cw}
	for i := 0; i < verifrt.Param("calls", 2); i++ {
		w := verifrt.Int("w", 1, maxw)
		got := m.Render(w)
		ref, _ := renderWithLinks(tree, w)
		verifrt.Assert(got == ref, "render-equals-cache-free-rendering")
	}
	verifrt.Reach("end")
}
