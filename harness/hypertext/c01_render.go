//go:build verif

package hypertext

import (
	"servitor/verifrt"

	"golang.org/x/net/html"
)

// VerifC01Hypertext: text and attribute data as the HTML parser can hand them
// over after decoding character references - any scalar except NUL.
func VerifC01Hypertext() {
	n := verifrt.Param("runes", 2)
	txt := func() string { return verifrt.AnyText("t", verifrt.Choice("len", n+1)) }
	var tree []*html.Node
	switch verifrt.Choice("shape", 9) {
	case 0:
		tree = []*html.Node{vText(txt())}
	case 1:
		tree = []*html.Node{vEl("p", nil, vText(txt()))}
	case 2:
		tree = []*html.Node{vEl("pre", nil, vText(txt()))}
	case 3:
		tree = []*html.Node{vEl("code", nil, vText(txt()))}
	case 4:
		tree = []*html.Node{vEl("a", vAttr("href", "https://x/"+txt()), vText("l"))}
	case 5:
		tree = []*html.Node{vEl("img", vAttr("src", "https://x/i", "alt", txt()))}
	case 6:
		tree = []*html.Node{vEl("iframe", vAttr("src", txt(), "title", ""))}
	case 7:
		tree = []*html.Node{vEl("blockquote", nil, vEl("b", nil, vText(txt())))}
	default:
		tree = []*html.Node{vEl("ul", nil, vEl("li", nil, vText(txt())))}
	}
	width := verifrt.Int("width", 1, verifrt.Param("maxw", 6))
	out, links := renderWithLinks(tree, width)
	verifrt.Assert(verifrt.CleanOutput(out), "rendered-html-clean")
	_ = links
	verifrt.Observe("out", out)
	verifrt.Reach("end")
}
