//go:build verif

package hypertext

import (
	"servitor/verifrt"
	"strings"

	"golang.org/x/net/html"
)

func vText(data string) *html.Node { return &html.Node{Type: html.TextNode, Data: data} }

func vEl(tag string, attrs []html.Attribute, children ...*html.Node) *html.Node {
	n := &html.Node{Type: html.ElementNode, Data: tag, Attr: attrs}
	var prev *html.Node
	for _, c := range children {
		if c == nil {
			continue
		}
		c.Parent = n
		c.PrevSibling = prev
		if prev == nil {
			n.FirstChild = c
		} else {
			prev.NextSibling = c
		}
		prev = c
	}
	n.LastChild = prev
	return n
}

func vAttr(kv ...string) []html.Attribute {
	var out []html.Attribute
	for i := 0; i+1 < len(kv); i += 2 {
		out = append(out, html.Attribute{Key: kv[i], Val: kv[i+1]})
	}
	return out
}

// ---- link-labelled trees for C12: every link-bearing element j has the
// one-letter label L_j as the last text inside it and the target "t"+L_j.

type vLinkGen struct {
	next       int
	targets    map[byte]string // label -> target
	budget     int
	unlabelled map[int]bool // link numbers whose element shows no label (an empty anchor)
}

func (g *vLinkGen) label() (string, string) {
	l := byte('A' + g.next)
	g.next++
	t := "https://t/" + string(l)
	g.targets[l] = t
	return string(l), t
}

const (
	kText = iota
	kA
	kImg
	kIframe
	kVideo
	kB
	kP
	kQuote
	kList
	kH2
	kPre
	kALinkless
	kImgNoAlt
	kAEmpty
	kKinds
)

// node generates one node of a symbolic kind; inLink = inside an <a>.
func (g *vLinkGen) node(depth int) *html.Node {
	g.budget--
	kinds := kKinds
	if depth <= 0 {
		kinds = kA // text only... plus nothing nested
	}
	k := kText
	if depth > 0 {
		k = verifrt.Choice("kind", kinds)
	}
	switch k {
	case kText:
		return vText("w")
	case kA:
		l, t := g.label()
		return vEl("a", vAttr("href", t), append(g.children(depth-1), vText(l))...)
	case kImg:
		l, t := g.label()
		return vEl("img", vAttr("src", t, "alt", "pic "+l))
	case kIframe:
		l, t := g.label()
		return vEl("iframe", vAttr("src", t, "title", "frame "+l))
	case kVideo:
		l, t := g.label()
		return vEl("video", vAttr("src", t, "alt", l))
	case kB:
		return vEl("b", nil, g.children(depth-1)...)
	case kP:
		return vEl("p", nil, g.children(depth-1)...)
	case kQuote:
		return vEl("blockquote", nil, g.children(depth-1)...)
	case kList:
		return vEl("ul", nil, vEl("li", nil, g.children(depth-1)...))
	case kH2:
		return vEl("h2", nil, g.children(depth-1)...)
	case kPre:
		return vEl("pre", nil, g.children(depth-1)...)
	case kALinkless:
		return vEl("a", nil, g.children(depth-1)...)
	case kAEmpty:
		// an anchor with a target and nothing (or only white space) in it still
		// is a link: it has a number, and that number opens its target
		_, _ = g.label()
		if g.unlabelled == nil {
			g.unlabelled = map[int]bool{}
		}
		g.unlabelled[g.next] = true
		t := g.targets[byte('A'+g.next-1)]
		// (kept between two words: a number directly after another element's
		// number could not be told from a two-digit number by the scanner)
		a := vEl("a", vAttr("href", t))
		if verifrt.Choice("blank", 2) == 1 {
			a = vEl("a", vAttr("href", t), vText(" "))
		}
		return vEl("b", nil, vText("w"), a, vText("w"))
	default: // image without alt text: the label is the link itself; not labelled
		return vEl("img", vAttr("alt", "no source"))
	}
}

func (g *vLinkGen) children(depth int) []*html.Node {
	if g.budget <= 0 || depth < 0 {
		return nil
	}
	n := verifrt.Choice("nchildren", 3)
	var out []*html.Node
	for i := 0; i < n && g.budget > 0; i++ {
		out = append(out, g.node(depth))
	}
	return out
}

const superscripts = "⁰¹²³⁴⁵⁶⁷⁸⁹"

func superDigit(r rune) int {
	i := 0
	for _, s := range superscripts {
		if s == r {
			return i
		}
		i++
	}
	return -1
}

// vNumbers scans rendered text: returns the numbers shown (in order) and for
// each the last letter A..Z seen before it.
func vNumbers(sc *verifrt.Screen) (nums []int, labels []byte) {
	last := byte(0)
	cur, inNum := 0, false
	flush := func() {
		if inNum {
			nums = append(nums, cur)
			labels = append(labels, last)
			cur, inNum = 0, false
		}
	}
	for _, line := range sc.Lines {
		for _, c := range line {
			if d := superDigit(c.R); d >= 0 {
				cur = cur*10 + d
				inNum = true
				continue
			}
			flush()
			if c.R >= 'A' && c.R <= 'Z' {
				last = byte(c.R)
			}
		}
		// a number may not continue across a line break
		flush()
	}
	flush()
	return
}

var _ = strings.Repeat
