//go:build verif

package ui

import (
	"servitor/config"
	"servitor/history"
	"servitor/object"
	"servitor/pub"
	"servitor/verifrt"
)

func c07Person(name string, withPics bool) map[string]any {
	m := map[string]any{"type": "Person", "name": name}
	if withPics {
		m["icon"] = map[string]any{"type": "Image", "url": "https://media.example/" + name + ".png", "mediaType": "image/png"}
		m["image"] = map[string]any{"type": "Image", "url": "https://media.example/" + name + "-banner.jpg"}
	}
	return m
}

// VerifC07RealItems: the keys that depend on the kind of the highlighted item
// (c, r, a, o, p, b) on real posts, activities and actors built from embedded JSON.
func VerifC07RealItems() {
	nCreators := verifrt.Choice("creators", 3)
	nRecipients := verifrt.Choice("recipients", 3)
	hasMedia := verifrt.Choice("media", 2) == 1
	post := object.Object{"type": "Video", "content": "<p>post</p>"}
	var creators, recipients []any
	for i := 0; i < nCreators; i++ {
		creators = append(creators, c07Person("creator"+string(rune('a'+i)), false))
	}
	for i := 0; i < nRecipients; i++ {
		recipients = append(recipients, c07Person("group"+string(rune('a'+i)), false))
	}
	if nCreators > 0 {
		post["attributedTo"] = creators
	}
	if nRecipients > 0 {
		post["audience"] = recipients
	}
	if hasMedia {
		post["url"] = []any{map[string]any{"type": "Link", "href": "https://media.example/v.mp4", "mediaType": "video/mp4"}}
	}
	var item pub.Tangible
	kind := verifrt.Choice("kind", 3)
	switch kind {
	case 0:
		p, err := pub.NewPostFromObject(post, nil)
		verifrt.Assert(err == nil, "post-built")
		item = p
	case 1:
		a, err := pub.NewActivityFromObject(object.Object{"type": "Announce", "actor": c07Person("booster", true), "object": map[string]any(post)}, nil)
		verifrt.Assert(err == nil, "activity-built")
		item = a
	default:
		a, err := pub.NewActorFromObject(object.Object(c07Person("someone", verifrt.Choice("pics", 2) == 1)), nil)
		verifrt.Assert(err == nil, "actor-built")
		item = a
	}

	log := &frameLog{}
	s := newTestState(40, 10, log)
	settleState = s
	execRec, execFail = execRecord{}, false
	s.m.Lock()
	s.switchTo(item)
	s.m.Unlock()
	verifrt.Settle()

	key := verifrt.Byte("key")
	verifrt.Assume(verifrt.InSet(key, "craopb"))
	s.Update(key)
	verifrt.Settle()

	// what the keymap says
	var thePost *pub.Post
	var theActivity *pub.Activity
	var theActor *pub.Actor
	switch x := item.(type) {
	case *pub.Post:
		thePost = x
	case *pub.Activity:
		theActivity = x
		thePost, _ = x.Target().(*pub.Post)
	case *pub.Actor:
		theActor = x
	}
	wantPages, wantOpen := 1, false
	var wantHighlighted pub.Tangible = item
	open := func(list []pub.Tangible) {
		if len(list) > 0 {
			wantPages = 2
			wantHighlighted = list[0]
		}
	}
	switch key {
	case 'c':
		if thePost != nil {
			open(thePost.Creators())
		}
	case 'r':
		if thePost != nil {
			open(thePost.Recipients())
		}
	case 'a':
		if theActivity != nil {
			wantPages, wantHighlighted = 2, theActivity.Actor()
		}
	case 'o':
		if thePost != nil {
			_, _, wantOpen = thePost.Media()
		}
	case 'p':
		if theActor != nil {
			_, _, wantOpen = theActor.ProfilePic()
		}
	case 'b':
		if theActor != nil {
			_, _, wantOpen = theActor.Banner()
		}
	}
	s.m.Lock()
	verifrt.Assert(history.VerifLen(&s.h) == wantPages && history.VerifIndex(&s.h) == wantPages-1, "key-opens-a-page-exactly-when-the-item-has-what-it-asks-for")
	got := s.h.Current().feed.Current()
	s.m.Unlock()
	if wantPages == 2 && key != 'a' {
		verifrt.Assert(got == wantHighlighted, "new-page-highlights-the-first-of-them")
	}
	if wantPages == 1 {
		verifrt.Assert(got == item, "otherwise-nothing-moves")
	}
	if verifrt.Symbolic() {
		verifrt.Assert(execRec.called == wantOpen, "media-key-runs-the-hook-exactly-when-there-is-media")
	}
	s.m.Lock()
	verifrt.Assert(s.mode == normal && s.buffer == "", "back-to-normal-mode")
	s.m.Unlock()
	verifrt.Observe("pages", wantPages)
	verifrt.Reach("end")
}

// VerifC07Commands: Enter in command mode with complete commands.
func VerifC07Commands() {
	saved := config.Parsed.Feeds
	config.Parsed.Feeds = map[string][]string{"f": {"https://unreachable.example/a"}}
	defer func() { config.Parsed.Feeds = saved }()
	log := &frameLog{}
	s := newTestState(40, 10, log)
	settleState = s
	s.m.Lock()
	s.switchTo(pub.Tangible(&vItem{tag: 1, lines: 1}))
	s.m.Unlock()
	verifrt.Settle()
	cmds := []string{"open https://unreachable.example/x", "feed f", "feed nope", "bogus x", "open", "", "open two words"}
	wantNewPage := []bool{true, true, false, false, false, false, true}
	k := verifrt.Choice("command", len(cmds))
	// the last character is typed, the rest is already in the buffer
	s.mode = command
	if len(cmds[k]) > 0 {
		s.buffer = cmds[k][:len(cmds[k])-1]
		s.Update(cmds[k][len(cmds[k])-1])
	}
	verifrt.Assert(s.buffer == cmds[k] && s.mode == command, "typed-characters-accumulate")
	s.Update(enterKey)
	verifrt.Settle()
	s.m.Lock()
	pages := history.VerifLen(&s.h)
	verifrt.Assert(s.mode == normal && s.buffer == "", "command-ends-in-normal-mode")
	verifrt.Assert((pages == 2) == wantNewPage[k], "open-and-feed-commands-open-a-page-others-do-not")
	s.m.Unlock()
	verifrt.Observe("pages", pages)
	verifrt.Reach("end")
}
