//go:build verif

package ui

import (
	"runtime"
	"sync"
	"io"
	"os"
	"os/exec"
	"path/filepath"
	"servitor/config"
	"servitor/feed"
	"servitor/mime"
	"servitor/pub"
	"servitor/verifrt"
	"strings"
	"time"
)

// vItem is an inert Tangible with a tag and a configurable number of lines.
type vItem struct {
	tag      int
	lines    int
	parents  []pub.Tangible
	children pub.Container
	links    []string
}

func (v *vItem) text() string {
	n := v.lines
	if n < 1 {
		n = 1
	}
	return strings.Repeat("x\n", n-1) + "x"
}
func (v *vItem) String(width int) string  { return v.text() }
func (v *vItem) Preview(width int) string { return v.text() }
// ---- native only: background loads stay in flight until the harness settles
//
// Under the engine a goroutine started by the UI runs when the harness
// settles (or the main thread blocks), so a load begun by one key is still
// in flight when the next key arrives. Natively the stub loaders would
// finish at once; to replay the same situation they wait, when called from
// one of loadSurroundings' goroutines, until the harness calls Settle.

var loadGate struct {
	mu sync.Mutex
	ch chan struct{} // created on first use (natively only)
}

func openLoadGate() {
	loadGate.mu.Lock()
	if loadGate.ch == nil {
		loadGate.ch = make(chan struct{})
	}
	select {
	case <-loadGate.ch:
	default:
		close(loadGate.ch)
	}
	loadGate.mu.Unlock()
}

func closeLoadGate() {
	loadGate.mu.Lock()
	loadGate.ch = make(chan struct{})
	loadGate.mu.Unlock()
}

func waitForLoadGate() {
	if verifrt.Symbolic() {
		return
	}
	pc := make([]uintptr, 32)
	n := runtime.Callers(2, pc)
	frames := runtime.CallersFrames(pc[:n])
	background := false
	for {
		f, more := frames.Next()
		if strings.Contains(f.Function, "loadSurroundings.func") {
			background = true
		}
		if !more {
			break
		}
	}
	if !background {
		return
	}
	loadGate.mu.Lock()
	if loadGate.ch == nil {
		loadGate.ch = make(chan struct{})
	}
	ch := loadGate.ch
	loadGate.mu.Unlock()
	select {
	case <-ch:
	case <-time.After(3 * time.Second):
	}
}

func (v *vItem) Parents(q uint) ([]pub.Tangible, pub.Tangible) {
	waitForLoadGate()
	if int(q) >= len(v.parents) {
		return v.parents, nil
	}
	if q == 0 {
		if len(v.parents) == 0 {
			return []pub.Tangible{}, nil
		}
		return []pub.Tangible{}, v
	}
	return v.parents[:q], v.parents[q-1]
}
func (v *vItem) Children() pub.Container { return v.children }
func (v *vItem) Timestamp() time.Time    { return time.Time{} }
func (v *vItem) Name() string            { return "item" }
func (v *vItem) SelectLink(k int) (string, *mime.MediaType, bool) {
	if k >= 1 && k <= len(v.links) {
		return v.links[k-1], mime.Unknown(), true
	}
	return "", nil, false
}

type frameLog struct {
	frames []string
}

func newTestState(width, height int, log *frameLog) *State {
	// built by the real constructor, so that whatever it initialises is there
	s := NewState(width, height, func(f string) { log.frames = append(log.frames, f) })
	s.mode = normal
	return s
}

func emptyPage() *Page { return &Page{feed: feed.CreateEmpty()} }

// ---- exec stubs (engine) / dump program (native)

type execRecord struct {
	called bool
	name   string
	args   []string
	cmd    *exec.Cmd
}

var execRec execRecord
var execFail bool

// VerifStubCommand stands in for exec.Command under the engine.
func VerifStubCommand(name string, arg ...string) *exec.Cmd {
	execRec.called = true
	execRec.name = name
	execRec.args = append([]string{}, arg...)
	c := &exec.Cmd{Path: name, Args: append([]string{name}, arg...)}
	execRec.cmd = c
	return c
}

// VerifStubCombinedOutput stands in for (*exec.Cmd).CombinedOutput.
func VerifStubCombinedOutput(c *exec.Cmd) ([]byte, error) {
	if execFail {
		return []byte("hook failed"), io.ErrUnexpectedEOF
	}
	return nil, nil
}

const dumpScript = `#!/bin/sh
out="$0.out"
: > "$out.tmp"
for a in "$@"; do printf '%s\000' "$a" >> "$out.tmp"; done
cat > "$out.stdin"
mv "$out.tmp" "$out"
`

// nativeDumpHook writes the dump program used as hook[0] in native replays.
func nativeDumpHook() string {
	dir, err := os.MkdirTemp("", "verif-hook-")
	if err != nil {
		panic(err)
	}
	p := filepath.Join(dir, "dump.sh")
	if err := os.WriteFile(p, []byte(dumpScript), 0o755); err != nil {
		panic(err)
	}
	return p
}

func readDump(prog string) (args []string, stdin string) {
	b, err := os.ReadFile(prog + ".out")
	if err != nil {
		panic("hook did not run: " + err.Error())
	}
	if len(b) > 0 {
		args = strings.Split(strings.TrimSuffix(string(b), "\x00"), "\x00")
	}
	in, _ := os.ReadFile(prog + ".out.stdin")
	os.RemoveAll(filepath.Dir(prog))
	return args, string(in)
}

// tryReadDump: like readDump, but reports whether the hook ran at all.
func tryReadDump(prog string) (args []string, ran bool) {
	for i := 0; i < 300; i++ {
		if _, err := os.Stat(prog + ".out"); err == nil {
			a, _ := readDump(prog)
			return a, true
		}
		time.Sleep(time.Millisecond)
	}
	os.RemoveAll(filepath.Dir(prog))
	return nil, false
}

// waitMode waits (natively) until the UI has left the given mode.
func waitNotMode(s *State, mode int) {
	for i := 0; i < 2000; i++ {
		s.m.Lock()
		m := s.mode
		s.m.Unlock()
		if m != mode {
			return
		}
		time.Sleep(time.Millisecond)
	}
}

var _ = config.Parsed
var _ = verifrt.Symbolic

// vContainer: a well-behaved Container over a fixed list.
type vContainer struct {
	items []pub.Tangible
}

func (c *vContainer) Harvest(quantity uint, startingAt uint) ([]pub.Tangible, pub.Container, uint) {
	waitForLoadGate()
	n := uint(len(c.items))
	if startingAt >= n {
		return []pub.Tangible{}, nil, 0
	}
	end := startingAt + quantity
	if end >= n || end < startingAt {
		return append([]pub.Tangible{}, c.items[startingAt:]...), nil, 0
	}
	return append([]pub.Tangible{}, c.items[startingAt:end]...), c, end
}

func vItems(n, firstTag, lines int) []pub.Tangible {
	out := make([]pub.Tangible, n)
	for i := range out {
		out[i] = &vItem{tag: firstTag + i, lines: lines}
	}
	return out
}

func countLines(s string) int {
	n := 1
	for i := 0; i < len(s); i++ {
		if s[i] == '\n' {
			n++
		}
	}
	return n
}
