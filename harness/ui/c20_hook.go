//go:build verif

package ui

import (
	"io"
	"os"
	"path/filepath"
	"time"
	"servitor/config"
	"servitor/mime"
	"servitor/verifrt"
)

var placeholderLens = []int{0, 1, 4, 5, 8, 9, 10, 11}

// vArg: a hook argument of a length that can (or cannot) be a placeholder,
// every byte symbolic.
func vArg(name string, nlens int) string {
	return verifrt.Bytes(name, placeholderLens[verifrt.Choice(name+"-len", nlens)])
}

// VerifC20Hook: argv and stdin of the media hook for symbolic hook
// configurations, links and media types.
func VerifC20Hook() {
	K := 1 + verifrt.Choice("hooklen", verifrt.Param("maxhook", 3))
	nlens := verifrt.Param("arglens", len(placeholderLens))
	hook := make([]string, K)
	hook[0] = vArg("prog", 3)
	verifrt.Assume(len(hook[0]) > 0)
	for i := 1; i < K; i++ {
		hook[i] = vArg("arg", nlens)
	}
	// the link may itself look like a placeholder: lengths 4, 8, 9 and 10 are included
	linkLens := []int{0, 1, 2, 4, 8, 9, 10}
	link := verifrt.Bytes("link", linkLens[verifrt.Choice("linklen", verifrt.Param("linklens", len(linkLens)))])
	mt := &mime.MediaType{
		Essence:   verifrt.Bytes("essence", 3),
		Supertype: verifrt.Bytes("super", 1),
		Subtype:   verifrt.Bytes("sub", 1),
	}
	symbolic := verifrt.Symbolic()
	prog := hook[0]
	// links reach the UI sanitised (GetString / attribute scrubbing): printable
	// ASCII including space, quotes, dashes, '$', '(' and '%'
	for i := 0; i < len(link); i++ {
		verifrt.Assume(link[i] >= 0x20 && link[i] < 0x7f)
	}
	// exec cannot pass NUL bytes (argv strings are C strings)
	for _, a := range hook[1:] {
		for i := 0; i < len(a); i++ {
			verifrt.Assume(a[i] != 0)
		}
	}
	for _, f := range []string{mt.Essence, mt.Supertype, mt.Subtype} {
		for i := 0; i < len(f); i++ {
			verifrt.Assume(f[i] != 0)
		}
	}
	if !symbolic {
		// natively the program must exist: a dump script stands in for it
		prog = nativeDumpHook()
	}
	saved := config.Parsed.Media.Hook
	config.Parsed.Media.Hook = append([]string{prog}, hook[1:]...)
	defer func() { config.Parsed.Media.Hook = saved }()

	log := &frameLog{}
	s := newTestState(20, 4, log)
	s.h.Add(emptyPage())
	execRec = execRecord{}
	execFail = false

	s.m.Lock()
	s.openExternally(link, mt)
	s.m.Unlock()
	verifrt.Settle()

	var gotArgs []string
	var gotStdin string
	stdinSet := false
	if symbolic {
		verifrt.Assert(execRec.called, "hook-invoked")
		verifrt.Assert(execRec.name == hook[0], "program-name-never-substituted")
		gotArgs = execRec.args
		if execRec.cmd.Stdin != nil {
			stdinSet = true
			b, _ := io.ReadAll(execRec.cmd.Stdin)
			gotStdin = string(b)
		}
	} else {
		waitNotMode(s, opening)
		gotArgs, gotStdin = readDump(prog)
		stdinSet = gotStdin != ""
	}

	verifrt.Assert(len(gotArgs) == K-1, "argv-length-as-configured")
	hasURL := false
	for i := 1; i < K && i-1 < len(gotArgs); i++ {
		want := hook[i]
		switch hook[i] {
		case "%url":
			want = link
			hasURL = true
		case "%mimetype":
			want = mt.Essence
		case "%subtype":
			want = mt.Subtype
		case "%supertype":
			want = mt.Supertype
		}
		verifrt.Assert(gotArgs[i-1] == want, "argument-substituted-only-if-exactly-a-placeholder")
	}
	if hasURL {
		verifrt.Assert(!stdinSet || gotStdin == "", "no-stdin-when-url-placeholder-present")
	} else if link != "" {
		// (an empty link on standard input cannot be told from none)
		verifrt.Assert(stdinSet && gotStdin == link, "link-on-stdin-when-no-url-placeholder")
	}
	// the configured hook itself is left as it was (a second open must see the placeholders again)
	cfgSame := len(config.Parsed.Media.Hook) == K
	for i := 1; i < K && cfgSame; i++ {
		cfgSame = config.Parsed.Media.Hook[i] == hook[i]
	}
	verifrt.Assert(cfgSame, "configured-hook-is-not-modified")
	verifrt.Observe("args", gotArgs)
	verifrt.Observe("stdin", gotStdin)
	verifrt.Reach("end")
}

// nativeDumpHookNamed: a dump script whose file name keeps the letters,
// digits and spaces of the configured program name, so that a program path
// with a space in it really has one.
func nativeDumpHookNamed(prog string) string {
	dir, err := os.MkdirTemp("", "verif-hook-")
	if err != nil {
		panic(err)
	}
	name := ""
	for _, r := range prog {
		switch {
		case r >= 'a' && r <= 'z', r >= 'A' && r <= 'Z', r >= '0' && r <= '9', r == ' ':
			name += string(r)
		default:
			name += "_"
		}
	}
	p := filepath.Join(dir, "x"+name+"x")
	if err := os.WriteFile(p, []byte(dumpScript), 0o755); err != nil {
		panic(err)
	}
	return p
}

// VerifC20Configured: the hook as it is *configured* - through the
// configuration's own validation and post-processing - is what runs: same
// program, same arguments, substituted argument-wise.
func VerifC20Configured() {
	K := 1 + verifrt.Choice("hooklen", 3)
	configured := make([]string, K)
	prog := verifrt.Bytes("prog", 1+verifrt.Choice("prog-len", 3))
	for i := 0; i < len(prog); i++ {
		verifrt.Assume(verifrt.All(prog[i] >= 0x20, prog[i] < 0x7f, prog[i] != '/'))
	}
	symbolic := verifrt.Symbolic()
	configured[0] = prog
	if !symbolic {
		configured[0] = nativeDumpHookNamed(prog)
	}
	canned := []string{"%url", "-f", "two words", "%mimetype", " ", "--title=%url"}
	for i := 1; i < K; i++ {
		configured[i] = canned[verifrt.Choice("arg", len(canned))]
	}
	link := "https://l.example/a b?c=%url"
	mt := &mime.MediaType{Essence: "image/png", Supertype: "image", Subtype: "png"}

	cfg := &config.Config{}
	cfg.Feeds = map[string][]string{}
	cfg.Style.Colors.Primary = "#A4f59b"
	cfg.Style.Colors.Error = "#9c3535"
	cfg.Style.Colors.Highlight = "#0d7d00"
	cfg.Style.Colors.Code = "#4b4b4b"
	cfg.Network.Context = 1
	cfg.Network.Timeout = 10
	cfg.Network.CacheSize = 8
	cfg.Media.Hook = append([]string{}, configured...)
	if err := config.VerifPostprocess(cfg); err != nil {
		// rejected at start-up (a blank program name): nothing runs
		verifrt.Observe("accepted", false)
		verifrt.Reach("end")
		return
	}
	verifrt.Observe("accepted", true)
	saved := config.Parsed
	config.Parsed = cfg
	defer func() { config.Parsed = saved }()

	log := &frameLog{}
	s := newTestState(20, 4, log)
	s.h.Add(emptyPage())
	execRec = execRecord{}
	execFail = false
	s.m.Lock()
	s.openExternally(link, mt)
	s.m.Unlock()
	verifrt.Settle()

	want := []string{}
	hasURL := false
	for _, a := range configured[1:] {
		switch a {
		case "%url":
			a = link
			hasURL = true
		case "%mimetype":
			a = mt.Essence
		}
		want = append(want, a)
	}
	var got []string
	ran := false
	stdin := ""
	if symbolic {
		ran = execRec.called && execRec.name == configured[0]
		got = execRec.args
		if execRec.called && execRec.cmd.Stdin != nil {
			b, _ := io.ReadAll(execRec.cmd.Stdin)
			stdin = string(b)
		}
	} else {
		waitNotMode(s, opening)
		for i := 0; i < 300 && !ran; i++ {
			if _, err := os.Stat(configured[0] + ".out"); err == nil {
				ran = true
			} else {
				time.Sleep(time.Millisecond)
			}
		}
		if ran {
			got, stdin = readDump(configured[0])
		} else {
			os.RemoveAll(filepath.Dir(configured[0]))
		}
	}
	same := ran && len(got) == len(want)
	for i := 0; same && i < len(want); i++ {
		same = got[i] == want[i]
	}
	verifrt.Assert(same, "configured-program-runs-with-the-configured-arguments")
	if ran && !hasURL {
		verifrt.Assert(stdin == link, "link-on-stdin-when-no-url-placeholder")
	}
	verifrt.Reach("end")
}
