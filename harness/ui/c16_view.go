//go:build verif

package ui

import (
	"servitor/feed"
	"servitor/pub"
	"servitor/verifrt"
)

func c16CheckFrame(s *State, width, height int) {
	frame := s.view()
	verifrt.Assert(countLines(frame) == height, "frame-has-exactly-height-lines")
	sc := verifrt.Parse(frame)
	verifrt.Assert(sc.OK, "frame-well-formed")
	verifrt.Assert(verifrt.CleanOutput(frame), "frame-clean")
	verifrt.Assert(sc.NeutralAtBreaks(), "frame-neutral-at-line-ends")
	footer := s.mode == selection || s.mode == command || s.mode == opening || (s.mode == problem && s.buffer != "")
	if footer && len(sc.Lines) == height {
		verifrt.Assert(len(sc.Lines[height-1]) == width, "status-line-exactly-width")
	}
	verifrt.Observe("frame", frame)
}

// VerifC16ViewGeometry: content above, at and below the cursor that is
// shorter than, equal to and taller than the screen.
func VerifC16ViewGeometry() {
	log := &frameLog{}
	width := 12
	height := verifrt.Int("height", 2, verifrt.Param("maxh", 8))
	s := newTestState(width, height, log)
	around := verifrt.Param("around", 2)
	lines := 1 + verifrt.Choice("lines", 3)
	var f *feed.Feed
	switch verifrt.Choice("feedkind", 2) {
	case 0:
		f = feed.Create(&vItem{tag: 0, lines: 1 + verifrt.Choice("centerlines", 3)})
	default:
		f = feed.CreateAndAppend([]pub.Tangible{&vItem{tag: 1, lines: lines}})
	}
	f.Prepend(vItems(verifrt.Choice("up", around+1), -100, lines))
	f.Append(vItems(verifrt.Choice("down", around+1), 100, lines))
	switch verifrt.Choice("cursor", 3) {
	case 0:
	case 1:
		f.MoveUp()
	default:
		f.MoveDown()
	}
	s.h.Add(&Page{feed: f, loadingUp: verifrt.Bool("loadingUp"), loadingDown: verifrt.Bool("loadingDown")})
	if f.Contains(0) {
		c16CheckFrame(s, width, height)
		// the highlighted item (the lines carrying the cursor bar) is vertically centred
		item := f.Current().(*vItem)
		if height > item.lines {
			sc := verifrt.Parse(s.view())
			first := -1
			for i, l := range sc.Lines {
				if len(l) > 0 && l[0].R == '┃' {
					first = i
					break
				}
			}
			verifrt.Assert(first == (height-item.lines)/2, "highlighted-item-vertically-centred")
		}
	}
	verifrt.Reach("end")
}

// VerifC16ViewStatus: every mode and buffer, every width.
func VerifC16ViewStatus() {
	log := &frameLog{}
	width := verifrt.Int("width", 1, verifrt.Param("maxw", 12))
	height := []int{2, 3, 6}[verifrt.Choice("height", 3)]
	s := newTestState(width, height, log)
	s.mode = verifrt.Choice("mode", 6)
	s.buffer = verifrt.AnyText("buf", verifrt.Choice("buflen", verifrt.Param("buf", 2)+1))
	s.h.Add(&Page{feed: feed.Create(&vItem{tag: 0, lines: 2})})
	c16CheckFrame(s, width, height)
	verifrt.Reach("end")
}

// VerifC16Resize: a state that has already drawn frames at one size is
// resized; the frame emitted by the resize and the next one drawn have the
// new height (nothing laid out for the old size is reused).
func VerifC16Resize() {
	log := &frameLog{}
	maxh := verifrt.Param("maxh", 6)
	w1 := 12
	h1 := verifrt.Int("height", 2, maxh)
	s := newTestState(w1, h1, log)
	s.mode = verifrt.Choice("mode", 6)
	s.buffer = verifrt.AnyText("buf", verifrt.Choice("buflen", 2))
	f := feed.Create(&vItem{tag: 0, lines: 2})
	f.Append(vItems(1, 100, 1))
	s.h.Add(&Page{feed: f})
	c16CheckFrame(s, w1, h1)
	w2 := []int{12, 5}[verifrt.Choice("width2", 2)]
	h2 := verifrt.Int("height2", 2, maxh)
	before := len(log.frames)
	s.SetWidthHeight(w2, h2)
	if w2 != w1 || h2 != h1 {
		verifrt.Assert(len(log.frames) == before+1, "resize-emits-one-frame")
		if len(log.frames) == before+1 {
			verifrt.Assert(countLines(log.frames[before]) == h2, "resize-frame-has-exactly-height-lines")
		}
	}
	c16CheckFrame(s, w2, h2)
	verifrt.Reach("end")
}
