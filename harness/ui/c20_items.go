//go:build verif

package ui

import (
	"servitor/config"
	"servitor/object"
	"servitor/pub"
	"servitor/verifrt"
)

// VerifC20FromItems: the link and media type that o / p / b / number+Enter
// hand to the hook for real posts, attachments, profile pictures and banners:
// all four placeholders are substituted, and essence = supertype "/" subtype.
func VerifC20FromItems() {
	saved := config.Parsed.Media.Hook
	prog := "prog"
	if !verifrt.Symbolic() {
		prog = nativeDumpHook()
	}
	config.Parsed.Media.Hook = []string{prog, "%url", "%mimetype", "%supertype", "%subtype"}
	defer func() { config.Parsed.Media.Hook = saved }()

	mediaTypes := []any{nil, "video/mp4", "image/png; q=1", "garbage"}
	mt := mediaTypes[verifrt.Choice("mediatype", len(mediaTypes))]
	link := func(kind string) map[string]any {
		m := map[string]any{"type": kind}
		if kind == "Link" {
			m["href"] = "https://media.example/file"
		} else {
			m["url"] = "https://media.example/file"
		}
		if mt != nil {
			m["mediaType"] = mt
		}
		return m
	}
	linkKinds := []string{"Link", "Image", "Video", "Audio", "Document"}
	lk := linkKinds[verifrt.Choice("linkkind", len(linkKinds))]
	var item pub.Tangible
	var keys []byte
	switch verifrt.Choice("item", 4) {
	case 0:
		p, err := pub.NewPostFromObject(object.Object{"type": "Note", "content": "c", "url": link(lk)}, nil)
		verifrt.Assert(err == nil, "post-built")
		item, keys = p, []byte{'o'}
	case 1:
		p, err := pub.NewPostFromObject(object.Object{"type": "Video", "content": "c", "url": []any{link(lk), link("Link")}}, nil)
		verifrt.Assert(err == nil, "post-built")
		item, keys = p, []byte{'o'}
	case 2:
		p, err := pub.NewPostFromObject(object.Object{"type": "Note", "content": "<a href=\"https://body.example/l\">l</a>", "attachment": []any{link(lk)}}, nil)
		verifrt.Assert(err == nil, "post-built")
		item, keys = p, []byte{byte('1' + verifrt.Choice("number", 2)), enterKey}
	default:
		a, err := pub.NewActorFromObject(object.Object{"type": "Person", "name": "n", "icon": link(lk), "image": []any{link(lk)}}, nil)
		verifrt.Assert(err == nil, "actor-built")
		item, keys = a, []byte{[]byte{'p', 'b'}[verifrt.Choice("pic", 2)]}
	}
	log := &frameLog{}
	s := newTestState(40, 10, log)
	settleState = s
	execRec, execFail = execRecord{}, false
	s.m.Lock()
	s.switchTo(item)
	s.m.Unlock()
	verifrt.Settle()
	for _, k := range keys {
		s.Update(k)
		verifrt.Settle()
	}
	called, a := execRec.called, execRec.args
	if !verifrt.Symbolic() {
		waitNotMode(s, opening)
		a, called = tryReadDump(prog)
	}
	if called {
		verifrt.Assert(len(a) == 4, "four-arguments")
		if len(a) == 4 {
			verifrt.Assert(a[0] != "" && a[0] != "%url", "url-substituted")
			verifrt.Assert(a[1] == a[2]+"/"+a[3] && a[2] != "" && a[3] != "", "media-type-is-supertype-slash-subtype")
		}
	}
	s.m.Lock()
	verifrt.Assert(s.mode == normal, "back-to-normal-mode")
	s.m.Unlock()
	verifrt.Reach("end")
}
