//go:build verif

package ui

import (
	"servitor/config"
	"servitor/feed"
	"servitor/mime"
	"servitor/pub"
	"servitor/splicer"
	"servitor/verifrt"
	"time"

	lru "github.com/hashicorp/golang-lru/v2"
)

// VerifC19Consumers: a configuration that passes validation cannot crash the
// code that consumes it (cache construction, the media hook, the frame loop,
// the preload window of collections and feeds).
func VerifC19Consumers() {
	cfg := &config.Config{}
	cfg.Feeds = map[string][]string{}
	cfg.Style.Colors.Primary = "#A4f59b"
	cfg.Style.Colors.Error = "#9c3535"
	cfg.Style.Colors.Highlight = "#0d7d00"
	cfg.Style.Colors.Code = "#4b4b4b"
	hook := []string{"prog", "%url", "%mimetype"}
	cfg.Media.Hook = append([]string{}, hook[:verifrt.Choice("hooklen", 4)]...)
	for i := range cfg.Media.Hook {
		// any field may be blank
		cfg.Media.Hook[i] = []string{cfg.Media.Hook[i], "", " "}[verifrt.Choice("blank", 3)]
	}
	cfg.Network.Context = int(verifrt.Int64("preload_amount"))
	cfg.Network.Timeout = time.Duration(verifrt.Int64("timeout_seconds"))
	cfg.Network.CacheSize = int(verifrt.Int64("cache_size"))
	// the frame loop runs 2*preload_amount+1 times: bound it from above
	verifrt.Assume(cfg.Network.Context <= verifrt.Param("maxpreload", 2))

	if err := config.VerifPostprocess(cfg); err != nil {
		verifrt.Observe("accepted", false)
		verifrt.Reach("end")
		return
	}
	verifrt.Observe("accepted", true)
	saved := config.Parsed
	config.Parsed = cfg
	defer func() { config.Parsed = saved }()

	// 1. the response cache (jtp creates it exactly like this at start-up and uses it unconditionally)
	cache, err := lru.New[string, int](cfg.Network.CacheSize)
	verifrt.Assert(err == nil && cache != nil, "accepted-cache-size-yields-a-cache")
	if cache != nil {
		cache.Add("k", 1)
		_, _ = cache.Get("k")
	}

	// 2. the media hook
	log := &frameLog{}
	s := newTestState(20, 6, log)
	s.h.Add(&Page{feed: feed.Create(&vItem{tag: 0, lines: 1})})
	execRec = execRecord{}
	s.m.Lock()
	s.openExternally("https://l.example/x", mime.Unknown())
	s.m.Unlock()

	// 3. the frame loop and the preload window
	s.mode = normal
	_ = s.view()
	s.m.Lock()
	s.switchTo(&vContainer{items: vItems(3, 10, 1)})
	s.switchTo(pub.Container(splicer.Splicer{}))
	s.switchTo(&vItem{tag: 5, lines: 1, parents: vItems(2, 20, 1), children: &vContainer{items: vItems(2, 30, 1)}})
	s.m.Unlock()
	verifrt.Settle()
	verifrt.Reach("end")
}
