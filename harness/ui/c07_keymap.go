//go:build verif

package ui

import (
	"servitor/config"
	"servitor/feed"
	"servitor/history"
	"servitor/pub"
	"servitor/verifrt"
	"time"
)

// ---- reference model of the documented keymap (written against an abstract
// world of threads, not against feed/history)

type refItem struct {
	tag       int
	ancestors []*refItem // nearest first
	replies   []*refItem
	links     int
}

type refPage struct {
	thread *refItem   // opened item (thread pages)
	list   []*refItem // list pages
	isList bool
	off    int // thread: offset from the opened item; list: 1-based cursor
}

func (p *refPage) highlighted() *refItem {
	if p.isList {
		if p.off >= 1 && p.off <= len(p.list) {
			return p.list[p.off-1]
		}
		return nil
	}
	switch {
	case p.off < 0:
		return p.thread.ancestors[-p.off-1]
	case p.off == 0:
		return p.thread
	default:
		return p.thread.replies[p.off-1]
	}
}

type refUI struct {
	pages  []*refPage
	cur    int
	mode   int
	buffer string
}

const failureTag = -7

func (r *refUI) open(p *refPage) {
	r.pages = append(r.pages[:r.cur+1:r.cur+1], p)
	r.cur++
}

func (r *refUI) page() *refPage { return r.pages[r.cur] }

// key applies one key; the result is the state after background work has settled.
func (r *refUI) key(b byte) {
	if r.mode == loading {
		return
	}
	if b == escapeKey {
		r.buffer, r.mode = "", normal
		return
	}
	if b == backspaceKey {
		if r.buffer == "" {
			r.mode = normal
			return
		}
		rs := []rune(r.buffer)
		r.buffer = string(rs[:len(rs)-1])
		if r.buffer == "" && r.mode == selection {
			r.mode = normal
		}
		return
	}
	if r.mode == command {
		if b == enterKey {
			// (commands that fetch are exercised by the command harness)
			r.buffer, r.mode = "", normal
			return
		}
		r.buffer += string(rune(b))
		return
	}
	if b == ':' {
		r.buffer, r.mode = "", command
		return
	}
	if b >= '0' && b <= '9' {
		if r.mode != selection {
			r.buffer = ""
		}
		r.buffer += string(rune(b))
		r.mode = selection
		return
	}
	if r.mode == selection {
		if b == '.' || b == enterKey {
			// decimal value of the buffer, saturating
			k, big := 0, false
			for i := 0; i < len(r.buffer); i++ {
				k = k*10 + int(r.buffer[i]-'0')
				if k > 1000 {
					big = true
					k = 1000
				}
			}
			h := r.page().highlighted()
			valid := h != nil && !big && k >= 1 && k <= h.links
			r.buffer, r.mode = "", normal
			if valid && b == '.' {
				// the link is fetched; in this world every fetch fails and the failure is shown on a new page
				r.open(&refPage{thread: &refItem{tag: failureTag}})
			}
			// Enter: the hook runs and ends; nothing else changes
			return
		}
		r.mode, r.buffer = normal, ""
	}
	p := r.page()
	switch b {
	case 'j':
		if p.isList {
			if p.off < len(p.list) {
				p.off++
			}
		} else if p.off < len(p.thread.replies) {
			p.off++
		}
	case 'k':
		if p.isList {
			if p.off > 1 {
				p.off--
			}
		} else if p.off > -len(p.thread.ancestors) {
			p.off--
		}
	case 'g':
		if !p.isList {
			p.off = 0
		}
	case 'h':
		if r.cur > 0 {
			r.cur--
		}
	case 'l':
		if r.cur+1 < len(r.pages) {
			r.cur++
		}
	case ' ':
		if h := p.highlighted(); h != nil {
			r.open(&refPage{thread: h})
		}
	}
}

// ---- realisation of the world as stub Tangibles

func (w *refItem) realise(made map[*refItem]*vItem) *vItem {
	if v, ok := made[w]; ok {
		return v
	}
	v := &vItem{tag: w.tag, lines: 1}
	made[w] = v
	for i := 0; i < w.links; i++ {
		v.links = append(v.links, "https://unreachable.example/l"+string(rune('a'+i)))
	}
	for _, a := range w.ancestors {
		v.parents = append(v.parents, a.realise(made))
	}
	if len(w.replies) > 0 {
		c := &vContainer{}
		for _, x := range w.replies {
			c.items = append(c.items, x.realise(made))
		}
		v.children = c
	}
	return v
}

func tagOfItem(t pub.Tangible) int {
	switch x := t.(type) {
	case nil:
		return -1
	case *vItem:
		return x.tag
	case *pub.Failure:
		return failureTag
	}
	return -99
}

var settleState *State

func init() {
	verifrt.SettleHook = func() {
		// loads that were kept in flight may finish now; the next ones wait again
		openLoadGate()
		defer closeLoadGate()
		s := settleState
		if s == nil {
			time.Sleep(10 * time.Millisecond)
			return
		}
		for i := 0; i < 1000; i++ {
			s.m.Lock()
			busy := s.mode == loading || s.mode == opening
			// a load belongs to the page that asked for it, which need not be
			// the current one any more: wait for every page
			for k := 0; !busy && k < history.VerifLen(&s.h); k++ {
				p := history.VerifAt(&s.h, k)
				busy = p.loadingUp || p.loadingDown
			}
			s.m.Unlock()
			if !busy {
				return
			}
			time.Sleep(time.Millisecond)
		}
	}
}

func c07World() (*refItem, []*refItem) {
	tag := 0
	mk := func(links int) *refItem { tag++; return &refItem{tag: tag, links: links} }
	centre := mk(verifrt.Choice("links", verifrt.Param("links", 2)+1))
	for i := verifrt.Choice("ancestors", verifrt.Param("ancestors", 2)+1); i > 0; i-- {
		centre.ancestors = append(centre.ancestors, mk(0))
	}
	for i := verifrt.Choice("replies", verifrt.Param("replies", 2)+1); i > 0; i-- {
		centre.replies = append(centre.replies, mk(1))
	}
	var list []*refItem
	for i := verifrt.Choice("listlen", verifrt.Param("listlen", 2)+1); i > 0; i-- {
		list = append(list, mk(0))
	}
	return centre, list
}

func c07Compare(s *State, r *refUI, label string) {
	s.m.Lock()
	defer s.m.Unlock()
	verifrt.Assert(s.mode == r.mode, label+"-mode")
	verifrt.Assert(s.buffer == r.buffer, label+"-buffer")
	verifrt.Assert(history.VerifLen(&s.h) == len(r.pages) && history.VerifIndex(&s.h) == r.cur, label+"-history")
	want := -1
	if h := r.page().highlighted(); h != nil {
		want = h.tag
	}
	verifrt.Assert(tagOfItem(s.h.Current().feed.Current()) == want, label+"-highlighted-item")
}

// VerifC07Preload: the same navigation with a preload window of one item, so
// that every move loads more of a longer list through the continuation.
func VerifC07Preload() {
	saved := config.Parsed.Network.Context
	config.Parsed.Network.Context = 1
	defer func() { config.Parsed.Network.Context = saved }()
	n := 3 + verifrt.Choice("listlen", 3)
	var list []*refItem
	var items []pub.Tangible
	made := map[*refItem]*vItem{}
	for i := 0; i < n; i++ {
		it := &refItem{tag: 100 + i}
		list = append(list, it)
		items = append(items, it.realise(made))
	}
	log := &frameLog{}
	s := newTestState(30, 8, log)
	settleState = s
	r := &refUI{mode: normal}
	s.m.Lock()
	s.switchTo(pub.Container(&vContainer{items: items}))
	s.m.Unlock()
	r.pages = append(r.pages, &refPage{isList: true, list: list, off: 1})
	verifrt.Settle()
	c07Compare(s, r, "initial")
	for i := 0; i < verifrt.Param("keys", 3); i++ {
		b := verifrt.Byte("key")
		verifrt.Assume(verifrt.InSet(b, "jkg"))
		s.Update(b)
		verifrt.Settle()
		r.key(b)
		c07Compare(s, r, "after-key")
	}
	verifrt.Reach("end")
}

// VerifC07Navigation: longer sequences over the navigation keys only - move,
// open the highlighted item as a new page, walk the history - so that the
// same item is opened more than once and pages are revisited after moving on
// them ("on every history").
func VerifC07Navigation() {
	tag := 0
	mk := func() *refItem { tag++; return &refItem{tag: tag} }
	centre := mk()
	centre.ancestors = []*refItem{mk()}
	centre.replies = []*refItem{mk(), mk()}
	made := map[*refItem]*vItem{}
	log := &frameLog{}
	s := newTestState(30, 8, log)
	settleState = s
	r := &refUI{mode: normal}
	s.m.Lock()
	s.switchTo(pub.Tangible(centre.realise(made)))
	s.m.Unlock()
	r.pages = append(r.pages, &refPage{thread: centre})
	verifrt.Settle()
	c07Compare(s, r, "initial")
	for i := 0; i < verifrt.Param("keys", 4); i++ {
		b := verifrt.Byte("key")
		verifrt.Assume(verifrt.InSet(b, "jk hlg"))
		s.Update(b)
		verifrt.Settle()
		r.key(b)
		c07Compare(s, r, "after-key")
	}
	verifrt.Reach("end")
}

// VerifC07Keys: key sequences over a thread page and a list (or empty) page.
func VerifC07Keys() {
	centre, list := c07World()
	made := map[*refItem]*vItem{}
	log := &frameLog{}
	s := newTestState(30, 8, log)
	settleState = s
	execRec, execFail = execRecord{}, false

	// page 1: the thread of the centre item; page 2: a list (possibly empty), as
	// opening a collection produces it
	r := &refUI{mode: normal}
	s.m.Lock()
	s.switchTo(pub.Tangible(centre.realise(made)))
	s.m.Unlock()
	r.pages = append(r.pages, &refPage{thread: centre})
	if verifrt.Choice("withlist", 2) == 1 {
		var items []pub.Tangible
		for _, x := range list {
			items = append(items, x.realise(made))
		}
		s.m.Lock()
		s.switchTo(pub.Container(&vContainer{items: items}))
		s.m.Unlock()
		r.pages = append(r.pages, &refPage{isList: true, list: list, off: 1})
		r.cur = 1
	}
	verifrt.Settle()
	c07Compare(s, r, "initial")

	n := verifrt.Param("keys", 2)
	for i := 0; i < n; i++ {
		b := verifrt.Byte("key")
		s.Update(b)
		verifrt.Settle()
		r.key(b)
		c07Compare(s, r, "after-key")
	}
	// every frame emitted on the way (C16/C01 on reached states): exactly as
	// tall as the terminal, clean, neutral at line ends
	s.m.Lock()
	framesOK := true
	for _, f := range log.frames {
		sc := verifrt.Parse(f)
		framesOK = framesOK && countLines(f) == s.height && sc.OK && sc.NeutralAtBreaks() && verifrt.CleanOutput(f)
	}
	s.m.Unlock()
	verifrt.Assert(framesOK, "every-emitted-frame-is-terminal-height-clean-and-neutral")
	verifrt.Observe("mode", s.mode)
	verifrt.Reach("end")
}

// VerifC07Step: one key from an arbitrary well-formed state, including long
// selection buffers (the over-long number).
func VerifC07Step() {
	centre, list := c07World()
	made := map[*refItem]*vItem{}
	log := &frameLog{}
	s := newTestState(30, 8, log)
	settleState = s
	execRec, execFail = execRecord{}, false
	r := &refUI{mode: normal}
	s.m.Lock()
	if verifrt.Choice("pagekind", 2) == 0 {
		s.switchTo(pub.Tangible(centre.realise(made)))
		r.pages = append(r.pages, &refPage{thread: centre})
	} else {
		var items []pub.Tangible
		for _, x := range list {
			items = append(items, x.realise(made))
		}
		s.h.Add(&Page{feed: feed.CreateAndAppend(items)})
		r.pages = append(r.pages, &refPage{isList: true, list: list, off: 1})
	}
	s.m.Unlock()
	verifrt.Settle()
	switch verifrt.Choice("mode", 3) {
	case 0:
	case 1:
		s.mode, r.mode = command, command
		s.buffer = verifrt.AnyText("cmd", verifrt.Choice("cmdlen", 2))
		r.buffer = s.buffer
	default:
		s.mode, r.mode = selection, selection
		digit := func() string {
			d := verifrt.Byte("digit")
			verifrt.Assume(d >= '0' && d <= '9')
			return string(rune(d))
		}
		buf := ""
		switch verifrt.Choice("digits", 4) {
		case 0:
			buf = digit()
		case 1:
			buf = digit() + digit()
		case 2: // 19 digits around the int64 boundary 9223372036854775807
			buf = digit() + "22337203685477580" + digit()
		default: // 20 digits
			buf = digit() + "000000000000000000" + digit()
		}
		s.buffer, r.buffer = buf, buf
	}
	b := verifrt.Byte("key")
	s.Update(b)
	verifrt.Settle()
	r.key(b)
	c07Compare(s, r, "step")
	verifrt.Observe("mode", s.mode)
	verifrt.Reach("end")
}
