//go:build verif

package ui

import (
	"servitor/config"
	"servitor/object"
	"servitor/pub"
	"servitor/verifrt"
	"sync"
)

// VerifC08Events: concurrent keys, resizes, subcommands and the loaders they
// start, under every interleaving at synchronisation points. The engine's
// happens-before monitor reports any unordered pair of accesses to the same
// location (UI state, the frame log behind the output callback); a goroutine
// blocked forever is a deadlock.
func VerifC08Events() {
	saved := config.Parsed.Feeds
	config.Parsed.Feeds = map[string][]string{"f": {"https://unreachable.example/a", "https://unreachable.example/b"}}
	defer func() { config.Parsed.Feeds = saved }()
	log := &frameLog{}
	s := newTestState(30, 8, log)
	settleState = s
	execRec, execFail = execRecord{}, false

	verifrt.ExploreSchedules(false) // the page is set up deterministically
	centre := &vItem{tag: 1, lines: 1, links: []string{"https://unreachable.example/l"},
		parents: []pub.Tangible{&vItem{tag: 2, lines: 1}}}
	if verifrt.Param("replies", 0) > 0 {
		centre.children = &vContainer{items: vItems(verifrt.Param("replies", 0), 10, 1)}
	}
	s.m.Lock()
	s.switchTo(pub.Tangible(centre))
	s.m.Unlock()
	verifrt.Settle()
	if verifrt.Choice("prestate", 2) == 1 {
		// a link number has been typed: Enter opens it externally, Esc cancels
		s.mode, s.buffer = selection, "1"
	}
	verifrt.ExploreSchedules(true)

	keys := []byte{'j', ' ', 'h', '1', enterKey, escapeKey}
	n := verifrt.Param("events", 2)
	var events sync.WaitGroup // the calls below have returned; their loaders are awaited by Settle
	for i := 0; i < n; i++ {
		i := i
		events.Add(1)
		switch verifrt.Choice("event", 4) {
		case 0:
			b := keys[verifrt.Choice("key", len(keys))]
			go func() { s.Update(b); events.Done() }()
		case 1:
			go func() { s.SetWidthHeight(20+i, 6); events.Done() }()
		case 2:
			go func() { _ = s.Subcommand("feed", "f"); events.Done() }()
		default:
			go func() { _ = s.Subcommand("open", "https://unreachable.example/x"); events.Done() }()
		}
	}
	events.Wait()
	verifrt.Settle()
	// the interface is not wedged: the lock can be taken
	s.m.Lock()
	mode := s.mode
	s.m.Unlock()
	verifrt.Assert(mode != loading, "no-load-left-pending")
	verifrt.Reach("end")
}

// VerifC08RealThread: the same with a real post whose ancestors are loaded by
// the background loader while keys and resizes arrive.
func VerifC08RealThread() {
	log := &frameLog{}
	s := newTestState(30, 8, log)
	settleState = s
	post, err := pub.NewPostFromObject(object.Object{"type": "Note", "content": "<p>leaf</p>",
		"inReplyTo": map[string]any{"type": "Note", "content": "<p>parent</p>", "name": "p",
			"inReplyTo": map[string]any{"type": "Note", "content": "<p>grandparent</p>", "name": "g"}}}, nil)
	verifrt.Assert(err == nil, "post-built")
	// as at start-up: nothing is shown until the first page has been opened
	s.mode = loading
	open := func() {
		s.m.Lock()
		s.switchTo(pub.Tangible(post))
		s.mode = normal
		s.buffer = ""
		s.output(s.view())
		s.m.Unlock()
	}
	verifrt.ExploreSchedules(true)
	var events sync.WaitGroup
	events.Add(1)
	go func() { open(); events.Done() }()
	n := verifrt.Param("events", 2)
	for i := 0; i < n; i++ {
		i := i
		events.Add(1)
		if verifrt.Choice("event", 2) == 0 {
			go func() { s.SetWidthHeight(20+i, 6); events.Done() }()
		} else {
			go func() { open(); events.Done() }()
		}
	}
	events.Wait()
	verifrt.Settle()
	verifrt.Reach("end")
}
