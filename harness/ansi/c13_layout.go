//go:build verif

package ansi

import (
	"servitor/verifrt"
	"unicode"
)

func c13Text() (string, int) {
	n := verifrt.Choice("n", verifrt.Param("N", 3)+1)
	wide := verifrt.Param("wide", 0) == 1
	return vStyledText(n, verifrt.Param("depth", 1), wide), n
}

// VerifC13Wrap: word wrapping.
func VerifC13Wrap() {
	text, n := c13Text()
	width := verifrt.Int("width", 1, n+2)
	out := Wrap(text, width)
	in, o := verifrt.Parse(text), verifrt.Parse(out)
	verifrt.Assert(in.OK && o.OK, "wrap-output-well-formed")

	// 1. every line fits
	fits := true
	for _, l := range o.Lines {
		fits = verifrt.All(fits, len(l) <= width)
	}
	verifrt.Assert(fits, "wrap-lines-within-width")

	// 2. visible characters, with styling, in order
	vin, vout := verifrt.Visible(in.Flat()), verifrt.Visible(o.Flat())
	verifrt.Assert(len(vin) == len(vout), "wrap-keeps-every-visible-character")
	if len(vin) != len(vout) {
		return
	}
	same := true
	for i := range vin {
		same = verifrt.All(same, verifrt.SameCell(vin[i].C, vout[i].C))
	}
	verifrt.Assert(same, "wrap-keeps-order-and-styling")

	// 3. line breaks between visible characters survive;
	// 4. a word is broken only if it is longer than a line
	for i := 0; i+1 < len(vin); i++ {
		a, b := vin[i], vin[i+1]
		if a.Line != b.Line {
			verifrt.Assert(vout[i].Line != vout[i+1].Line, "wrap-keeps-line-breaks")
		}
		if a.Line == b.Line && b.Col == a.Col+1 && vout[i].Line != vout[i+1].Line {
			// length of the word containing a and b
			lo, hi := i, i+1
			for lo > 0 && vin[lo-1].Line == a.Line && vin[lo-1].Col == vin[lo].Col-1 {
				lo--
			}
			for hi+1 < len(vin) && vin[hi+1].Line == a.Line && vin[hi+1].Col == vin[hi].Col+1 {
				hi++
			}
			verifrt.Assert(hi-lo+1 > width, "wrap-breaks-only-overlong-words")
		}
	}
	verifrt.Assert(o.NeutralAtBreaks(), "wrap-neutral-at-line-ends")
	verifrt.Observe("out", out)
	verifrt.Reach("end")
}

// VerifC13DumbWrap: hard wrapping keeps every character.
func VerifC13DumbWrap() {
	text, n := c13Text()
	width := verifrt.Int("width", 1, n+2)
	out := DumbWrap(text, width)
	in, o := verifrt.Parse(text), verifrt.Parse(out)
	verifrt.Assert(in.OK && o.OK, "dumbwrap-output-well-formed")
	// walk both: an output line break is either an input line break or
	// inserted after exactly `width` cells
	il, ic := 0, 0
	good := true
	for ol, line := range o.Lines {
		good = verifrt.All(good, len(line) <= width)
		for _, c := range line {
			if il >= len(in.Lines) || ic >= len(in.Lines[il]) {
				good = false
				break
			}
			good = verifrt.All(good, verifrt.SameCell(c, in.Lines[il][ic]))
			ic++
		}
		if ol == len(o.Lines)-1 {
			break
		}
		if il < len(in.Lines) && ic == len(in.Lines[il]) && !(len(line) == width && false) {
			// genuine line break
			il, ic = il+1, 0
		} else {
			good = verifrt.All(good, len(line) == width) // inserted break
		}
	}
	good = good && il == len(in.Lines)-1 && ic == len(in.Lines[il])
	verifrt.Assert(good, "dumbwrap-inserts-breaks-only-at-width-and-keeps-all")
	verifrt.Observe("out", out)
	verifrt.Reach("end")
}

// VerifC13Pad: padding to a length.
func VerifC13Pad() {
	text, n := c13Text()
	length := verifrt.Int("length", -1, n+2)
	out := Pad(text, length)
	in, o := verifrt.Parse(text), verifrt.Parse(out)
	verifrt.Assert(in.OK && o.OK, "pad-output-well-formed")
	verifrt.Assert(len(in.Lines) == len(o.Lines), "pad-keeps-line-count")
	if len(in.Lines) != len(o.Lines) {
		return
	}
	good := true
	for i, l := range in.Lines {
		want := len(l)
		if length > want {
			want = length
		}
		ol := o.Lines[i]
		good = verifrt.All(good, len(ol) == want)
		for k := 0; k < len(ol) && k < want; k++ {
			if k < len(l) {
				good = verifrt.All(good, verifrt.SameCell(ol[k], l[k]))
			} else {
				good = verifrt.All(good, ol[k].R == ' ', ol[k].Attrs == "")
			}
		}
	}
	verifrt.Assert(good, "pad-appends-only-spaces-to-promised-length")
	verifrt.Observe("out", out)
	verifrt.Reach("end")
}

var vPrefixes = []string{"", "  ", "▌"}

// VerifC13Indent: indenting.
func VerifC13Indent() {
	text, _ := c13Text()
	prefix := vPrefixes[verifrt.Choice("prefix", len(vPrefixes))]
	first := verifrt.Choice("first", 2) == 1
	out := Indent(text, prefix, first)
	in, o, p := verifrt.Parse(text), verifrt.Parse(out), verifrt.Parse(prefix)
	verifrt.Assert(in.OK && o.OK, "indent-output-well-formed")
	verifrt.Assert(len(in.Lines) == len(o.Lines), "indent-keeps-line-count")
	if len(in.Lines) != len(o.Lines) {
		return
	}
	good := true
	for i, l := range in.Lines {
		var want []verifrt.Cell
		if i > 0 || first {
			want = append(want, p.Lines[0]...)
		}
		want = append(want, l...)
		ol := o.Lines[i]
		good = verifrt.All(good, len(ol) == len(want))
		for k := 0; k < len(ol) && k < len(want); k++ {
			good = verifrt.All(good, verifrt.SameCell(ol[k], want[k]))
		}
	}
	verifrt.Assert(good, "indent-line-is-prefix-plus-line")
	verifrt.Observe("out", out)
	verifrt.Reach("end")
}

// VerifC13Snip: snipping to a height.
func VerifC13Snip() {
	text, n := c13Text()
	width := verifrt.Int("width", 1, n+2)
	height := verifrt.Int("height", 1, 4)
	in := verifrt.Parse(text)
	for _, l := range in.Lines {
		verifrt.Assume(len(l) <= width) // Snip's documented precondition: input already wrapped
	}
	const ell = "…"
	out := Snip(text, width, height, ell)
	o := verifrt.Parse(out)
	verifrt.Assert(in.OK && o.OK, "snip-output-well-formed")
	verifrt.Assert(len(o.Lines) <= height, "snip-at-most-height-lines")
	fits := true
	for _, l := range o.Lines {
		fits = verifrt.All(fits, len(l) <= width)
	}
	verifrt.Assert(fits, "snip-lines-within-width")
	// output minus a trailing ellipsis is a prefix of the input cells, up to
	// dropped trailing whitespace-only lines and one dropped cell
	fo := o.Flat()
	hasEll := len(fo) > 0 && fo[len(fo)-1].C.R == '…' && fo[len(fo)-1].C.Attrs == ""
	body := fo
	if hasEll {
		body = fo[:len(fo)-1]
	}
	fi := in.Flat()
	good := len(body) <= len(fi)
	for k := 0; k < len(body) && k < len(fi); k++ {
		good = verifrt.All(good, verifrt.SameCell(body[k].C, fi[k].C), body[k].Line == fi[k].Line)
	}
	verifrt.Assert(good, "snip-is-prefix-of-input")
	if !hasEll {
		// nothing was cut: everything must still be there
		verifrt.Assert(len(body) == len(fi) && len(o.Lines) == len(in.Lines), "snip-without-ellipsis-is-identity")
	} else {
		// what was dropped after the kept prefix: at most one cell on the
		// last kept line, the rest of the dropped material is on later lines
		// or is whitespace-only
		lastLine := 0
		if len(body) > 0 {
			lastLine = body[len(body)-1].Line
		}
		dropped := 0
		for k := len(body); k < len(fi); k++ {
			if fi[k].Line == lastLine && !unicode.IsSpace(fi[k].C.R) {
				dropped++
			}
		}
		verifrt.Assert(dropped <= 1 || len(body) == 0, "snip-drops-at-most-one-cell-for-the-ellipsis")
	}
	verifrt.Observe("out", out)
	verifrt.Reach("end")
}

// VerifC13SetLength: the status line is exactly `length` cells, one line.
func VerifC13SetLength() {
	n := verifrt.Choice("n", verifrt.Param("N", 3)+1)
	text := ""
	for i := 0; i < n; i++ {
		r := verifrt.Rune("r") // any scalar, including controls
		text += string(r)
	}
	length := verifrt.Int("length", 0, n+2)
	out := SetLength(text, length, "…")
	cnt := 0
	clean := true
	for _, r := range out {
		cnt++
		clean = verifrt.All(clean, r != '\n', verifrt.Any(r >= 0x20, false), verifrt.Any(r < 0x7f, r > 0x9f))
	}
	verifrt.Assert(cnt == length, "setlength-exact-rune-count")
	verifrt.Assert(clean, "setlength-single-line-no-controls")
	verifrt.Observe("out", out)
	verifrt.Reach("end")
}

// Wide-regime variants: any Unicode scalar (1-4 byte encodings), smaller N.
func VerifC13WrapWide()     { VerifC13Wrap() }
func VerifC13DumbWrapWide() { VerifC13DumbWrap() }
func VerifC13PadWide()      { VerifC13Pad() }
func VerifC13SnipWide()     { VerifC13Snip() }
