//go:build verif

package ansi

import "servitor/verifrt"

// VerifC06Layout: the layout functions at the degenerate widths and heights
// that narrow terminals and deep nesting produce (negative, zero) never panic.
func VerifC06Layout() {
	text := vStyledText(verifrt.Choice("n", verifrt.Param("N", 3)+1), 1, false)
	w := verifrt.Int("width", -6, 2)
	switch verifrt.Choice("fn", 5) {
	case 0:
		_ = Wrap(text, w)
	case 1:
		_ = DumbWrap(text, w)
	case 2:
		_ = Pad(text, w)
	case 3:
		_ = Snip(Wrap(text, w), w, 4, "…")
	default:
		_ = Indent(Wrap(text, w), "  ", true)
	}
	verifrt.Assert(true, "returned")
	verifrt.Reach("end")
}
