//go:build verif

package ansi

import "servitor/verifrt"

// ---- styled text generator: real ansi.Apply over symbolic characters

var vStyles = []string{"1", "38;2;164;245;155", "4"}

// vChar: a printable non-control character or '\n' (what Scrub lets through).
func vChar(name string, wide bool) string {
	if !wide {
		b := verifrt.Byte(name)
		verifrt.Assume(verifrt.All(b < 0x80, b != 0x7f, verifrt.Any(b >= 0x20, b == '\n')))
		return string(rune(b))
	}
	r := verifrt.Rune(name)
	verifrt.Assume(verifrt.All(verifrt.Any(r >= 0x20, r == '\n'), verifrt.Any(r < 0x7f, r > 0x9f)))
	return string(r)
}

// vStyledText: n characters; each carries 0..depth nested style applications.
func vStyledText(n, depth int, wide bool) string {
	text := ""
	for i := 0; i < n; i++ {
		ch := vChar("ch", wide)
		d := verifrt.Choice("depth", depth+1)
		for k := 0; k < d; k++ {
			ch = Apply(ch, vStyles[k])
		}
		text += ch
	}
	return text
}
