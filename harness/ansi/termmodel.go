//go:build verif

package ansi

import (
	"servitor/verifrt"
	"unicode"
	"unicode/utf8"
)

// Terminal model: an independent scanner (it shares no code with expand).
// ESC [ params m adds params to the active set; "0" clears it.

type vCell struct {
	r     rune
	attrs string // active parameters, in order of activation, '|' separated
}

type vScreen struct {
	lines     [][]vCell
	nlActive  []string // active set at each '\n'
	endActive string   // active set at end of text
	ok        bool     // well-formed
}

func vParse(s string) *vScreen {
	sc := &vScreen{ok: true}
	cur := []vCell{}
	active := ""
	for i := 0; i < len(s); {
		if s[i] == 0x1b {
			if i+1 >= len(s) || s[i+1] != '[' {
				sc.ok = false
				break
			}
			j := i + 2
			for j < len(s) && s[j] != 'm' {
				j++
			}
			if j >= len(s) {
				sc.ok = false
				break
			}
			p := s[i+2 : j]
			if p == "0" {
				active = ""
			} else if active == "" {
				active = p
			} else {
				active += "|" + p
			}
			i = j + 1
			continue
		}
		r, size := utf8.DecodeRuneInString(s[i:])
		i += size
		if r == '\n' {
			sc.lines = append(sc.lines, cur)
			sc.nlActive = append(sc.nlActive, active)
			cur = []vCell{}
			continue
		}
		cur = append(cur, vCell{r, active})
	}
	sc.lines = append(sc.lines, cur)
	sc.endActive = active
	return sc
}

func (sc *vScreen) neutralAtBreaks() bool {
	for _, a := range sc.nlActive {
		if a != "" {
			return false
		}
	}
	return sc.endActive == ""
}

// flat returns the cells with line indices.
type vPos struct {
	c    vCell
	line int
	col  int
}

func (sc *vScreen) flat() []vPos {
	var out []vPos
	for li, l := range sc.lines {
		for ci, c := range l {
			out = append(out, vPos{c, li, ci})
		}
	}
	return out
}

func sameCell(a, b vCell) bool { return verifrt.All(a.r == b.r, a.attrs == b.attrs) }

func visible(ps []vPos) []vPos {
	var out []vPos
	for _, p := range ps {
		if !unicode.IsSpace(p.c.r) {
			out = append(out, p)
		}
	}
	return out
}

// ---- styled text generator: real ansi.Apply over symbolic characters

var vStyles = []string{"1", "38;2;164;245;155", "4"}

// vChar: a printable non-control character or '\n' (what Scrub lets through).
func vChar(name string, wide bool) string {
	if !wide {
		b := verifrt.Byte(name)
		verifrt.Assume(verifrt.All(b < 0x80, b != 0x7f, verifrt.Any(b >= 0x20, b == '\n')))
		return string(rune(b))
	}
	r := verifrt.Rune(name)
	verifrt.Assume(verifrt.All(verifrt.Any(r >= 0x20, r == '\n'), verifrt.Any(r < 0x7f, r > 0x9f)))
	return string(r)
}

// vStyledText: n characters; each carries 0..depth nested style applications.
func vStyledText(n, depth int, wide bool) string {
	text := ""
	for i := 0; i < n; i++ {
		ch := vChar("ch", wide)
		d := verifrt.Choice("depth", depth+1)
		for k := 0; k < d; k++ {
			ch = Apply(ch, vStyles[k])
		}
		text += ch
	}
	return text
}
