//go:build verif

package ansi

import "servitor/verifrt"

// independent line counting (does not use Height / strings.Count)
func vLines(s string) int {
	n := 1
	for i := 0; i < len(s); i++ {
		if s[i] == '\n' {
			n++
		}
	}
	return n
}

// vLine returns line k of s (0-based), or "" with ok=false
func vLine(s string, k int) (string, bool) {
	start, n := 0, 0
	for i := 0; i <= len(s); i++ {
		if i == len(s) || s[i] == '\n' {
			if n == k {
				return s[start:i], true
			}
			n++
			start = i + 1
		}
	}
	return "", false
}

// VerifC16Center: the geometric kernel of every frame.
func VerifC16Center() {
	L := verifrt.Param("L", 3)
	prefix := verifrt.Bytes("prefix", verifrt.Choice("plen", L+1))
	centered := verifrt.Bytes("centered", verifrt.Choice("clen", L+1))
	suffix := verifrt.Bytes("suffix", verifrt.Choice("slen", L+1))
	height := verifrt.Int("height", 2, 2*L+3)

	out := CenterVertically(prefix, centered, suffix, uint(height))

	verifrt.Assert(vLines(out) == height, "frame-height-exact")
	ch := vLines(centered)
	if height > ch {
		top := (height - ch) / 2
		// the centred block occupies rows top .. top+ch-1, unchanged
		ok := true
		for k := 0; k < ch; k++ {
			want, _ := vLine(centered, k)
			got, present := vLine(out, top+k)
			ok = ok && present && got == want
		}
		verifrt.Assert(ok, "centered-block-at-middle-row")
	} else {
		ok := true
		for k := 0; k < height; k++ {
			want, _ := vLine(centered, k)
			got, present := vLine(out, k)
			ok = ok && present && got == want
		}
		verifrt.Assert(ok, "tall-content-shows-first-rows")
	}
	verifrt.Observe("out", out)
	verifrt.Reach("end")
}

// VerifC16ReplaceLastLine: the status line replaces the last line.
func VerifC16ReplaceLastLine() {
	L := verifrt.Param("L", 3)
	original := verifrt.Bytes("orig", verifrt.Choice("olen", L+2))
	repl := verifrt.Bytes("repl", verifrt.Choice("rlen", 3))
	for i := 0; i < len(repl); i++ {
		verifrt.Assume(repl[i] != '\n')
	}
	n := vLines(original)
	verifrt.Assume(n >= 2) // frames have at least two rows
	out := ReplaceLastLine(original, repl)
	verifrt.Assert(vLines(out) == n, "status-keeps-height")
	last, _ := vLine(out, n-1)
	verifrt.Assert(last == repl, "status-is-last-line")
	ok := true
	for k := 0; k < n-1; k++ {
		a, _ := vLine(original, k)
		b, _ := vLine(out, k)
		ok = ok && a == b
	}
	verifrt.Assert(ok, "status-keeps-other-lines")
	verifrt.Observe("out", out)
	verifrt.Reach("end")
}
