//go:build verif

package style

import (
	"servitor/ansi"
	"servitor/config"
	"servitor/verifrt"
	"sort"
	"strings"
)

type vOp struct {
	name  string
	apply func(string) string
	attrs func() []string
}

func fg(c string) string { return "38;2;" + c }
func bg(c string) string { return "48;2;" + c }

var vOps = []vOp{
	{"none", func(s string) string { return s }, func() []string { return nil }},
	{"Bold", Bold, func() []string { return []string{"1"} }},
	{"Italic", Italic, func() []string { return []string{"3"} }},
	{"Underline", Underline, func() []string { return []string{"4"} }},
	{"Strikethrough", Strikethrough, func() []string { return []string{"9"} }},
	{"Code", Code, func() []string { return []string{bg(config.Parsed.Style.Colors.Code)} }},
	{"Highlight", Highlight, func() []string { return []string{bg(config.Parsed.Style.Colors.Highlight)} }},
	{"Color", Color, func() []string { return []string{fg(config.Parsed.Style.Colors.Primary)} }},
	{"Red", Red, func() []string { return []string{fg(config.Parsed.Style.Colors.Error)} }},
	{"Link", func(s string) string { return Link(s, 3) }, func() []string { return []string{"4", fg(config.Parsed.Style.Colors.Primary)} }},
	{"QuoteBlock", QuoteBlock, func() []string { return []string{fg(config.Parsed.Style.Colors.Primary)} }},
	{"LinkBlock", func(s string) string { return LinkBlock(s, 12) }, func() []string { return []string{"4", fg(config.Parsed.Style.Colors.Primary)} }},
	{"Header", func(s string) string { return Header(s, 2) }, func() []string { return []string{"1", fg(config.Parsed.Style.Colors.Primary)} }},
	{"Bullet", Bullet, func() []string { return nil }},
	{"CodeBlock", CodeBlock, func() []string { return []string{bg(config.Parsed.Style.Colors.Code)} }},
}

const decoration = "▌‣•⯁⁰¹²³⁴⁵⁶⁷⁸⁹… "

func isDecoration(r rune) bool { return strings.ContainsRune(decoration, r) }

// vLeafChar: a printable ASCII character that is not a space (so it can be
// told apart from the decoration the style functions add) or a newline.
func vLeafChar(name string) string {
	b := verifrt.Byte(name)
	verifrt.Assume(verifrt.All(b < 0x7f, verifrt.Any(b > 0x20, b == '\n')))
	return string(rune(b))
}

func sortedAttrs(s string) string {
	if s == "" {
		return ""
	}
	parts := strings.Split(s, "|")
	sort.Strings(parts)
	return strings.Join(parts, "|")
}

func expectAttrs(lists ...[]string) string {
	var all []string
	for _, l := range lists {
		all = append(all, l...)
	}
	sort.Strings(all)
	return strings.Join(all, "|")
}

// leafCells returns the output cells that are leaf characters (not decoration).
func leafCells(sc *verifrt.Screen) []verifrt.Cell {
	var out []verifrt.Cell
	for _, l := range sc.Lines {
		for _, c := range l {
			if !isDecoration(c.R) {
				out = append(out, c)
			}
		}
	}
	return out
}

var vOuterOps = []int{0, 7, 10, 11, 12, 13} // none, Color, QuoteBlock, LinkBlock, Header, Bullet

func c14check(want []string, out string, label string, prefixOnly bool) {
	sc := verifrt.Parse(out)
	verifrt.Assert(sc.OK, label+"-well-formed")
	verifrt.Assert(sc.NeutralAtBreaks(), label+"-neutral-at-every-line-end")
	got := leafCells(sc)
	if prefixOnly {
		verifrt.Assert(len(got) <= len(want), label+"-no-extra-characters")
	} else {
		verifrt.Assert(len(got) == len(want), label+"-every-character-present")
	}
	ok := true
	for i := 0; i < len(got) && i < len(want); i++ {
		ok = ok && sortedAttrs(got[i].Attrs) == want[i]
	}
	verifrt.Assert(ok, label+"-exact-attributes-per-character")
}

// VerifC14Compose: nested and concatenated style functions; per-character
// attribute sets against the expectation computed from the expression alone;
// neutrality at every line end.
func VerifC14Compose() {
	nLeaves := 1 + verifrt.Choice("leaves", verifrt.Param("leaves", 2))
	outerDepth := verifrt.Param("outer", 1)
	text := ""
	var want []string
	var leafOps [][]string
	var chars []string
	for i := 0; i < nLeaves; i++ {
		ch := vLeafChar("ch")
		op := vOps[verifrt.Choice("leafop", len(vOps))]
		text += op.apply(ch)
		leafOps = append(leafOps, op.attrs())
		chars = append(chars, ch)
	}
	var outer []string
	for d := 0; d < outerDepth; d++ {
		op := vOps[verifrt.Choice("outerop", len(vOps))]
		text = op.apply(text)
		outer = append(outer, op.attrs()...)
	}
	for i, ch := range chars {
		if ch != "\n" {
			want = append(want, expectAttrs(leafOps[i], outer))
		}
	}
	c14check(want, text, "styled", false)
	verifrt.Observe("text", text)
	verifrt.Reach("end")
}

// VerifC14Layout: a styled two-character run under a structural style
// function, then one layout operation with symbolic parameters.
func VerifC14Layout() {
	a, b := vLeafChar("ch"), vLeafChar("ch")
	op1 := vOps[verifrt.Choice("op1", len(vOps))]
	op2 := vOps[vOuterOps[verifrt.Choice("op2", len(vOuterOps))]]
	text := op2.apply(op1.apply(a + b))
	var want []string
	for _, ch := range []string{a, b} {
		if ch != "\n" {
			want = append(want, expectAttrs(op1.attrs(), op2.attrs()))
		}
	}
	maxW := verifrt.Param("maxw", 4)
	switch verifrt.Choice("layout", 5) {
	case 0:
		c14check(want, ansi.Wrap(text, verifrt.Int("w", 1, maxW)), "wrapped", false)
	case 1:
		c14check(want, ansi.DumbWrap(text, verifrt.Int("w", 1, maxW)), "hardwrapped", false)
	case 2:
		out := ansi.Pad(text, verifrt.Int("w", 0, maxW))
		c14check(want, out, "padded", false)
		// the filler was never wrapped in a style function: it carries none
		in, o := verifrt.Parse(text), verifrt.Parse(out)
		if in.OK && o.OK && len(in.Lines) == len(o.Lines) {
			plain := true
			for i, l := range o.Lines {
				for j := len(in.Lines[i]); j < len(l); j++ {
					plain = plain && len(l[j].Attrs) == 0
				}
			}
			verifrt.Assert(plain, "padding-carries-no-attributes")
		}
	case 3:
		first := verifrt.Choice("first", 2) == 1
		out := ansi.Indent(text, "  ", first)
		c14check(want, out, "indented", false)
		in, o := verifrt.Parse(text), verifrt.Parse(out)
		if in.OK && o.OK && len(in.Lines) == len(o.Lines) {
			plain := true
			for i, l := range o.Lines {
				for j := 0; j < len(l)-len(in.Lines[i]); j++ {
					plain = plain && len(l[j].Attrs) == 0
				}
			}
			verifrt.Assert(plain, "indentation-carries-no-attributes")
		}
	case 4:
		w := verifrt.Int("w", 2, maxW)
		c14check(want, ansi.Snip(ansi.Wrap(text, w), w, verifrt.Int("h", 1, 3), Color("…")), "snipped", true)
	}
	verifrt.Observe("text", text)
	verifrt.Reach("end")
}

// VerifC14Decoration: what a block style adds in front of each line (bar,
// bullet, marker, indentation) looks the same on the first and on every
// continuation line - no attribute applies to one line's decoration only.
func VerifC14Decoration() {
	ops := []int{10, 11, 12, 13} // QuoteBlock, LinkBlock, Header, Bullet
	op := vOps[ops[verifrt.Choice("op", len(ops))]]
	nLines := 2 + verifrt.Choice("lines", 2)
	text := ""
	for i := 0; i < nLines; i++ {
		if i > 0 {
			text += "\n"
		}
		text += vLeafCharNoNL("ch")
	}
	sc := verifrt.Parse(op.apply(text))
	verifrt.Assert(sc.OK && sc.NeutralAtBreaks(), "block-well-formed-and-neutral")
	verifrt.Assert(len(sc.Lines) == nLines, "block-keeps-its-lines")
	// decoration = the cells before the leaf character of each line
	ref := ""
	for li, l := range sc.Lines {
		for _, c := range l {
			if !isDecoration(c.R) {
				break
			}
			if c.R == ' ' && len(l) > 0 && l[0].R != ' ' && li == 0 {
				// the separator after a first-line marker belongs to the decoration too
			}
			if li == 0 && ref == "" {
				ref = "set:" + sortedAttrs(c.Attrs)
			}
			verifrt.Assert("set:"+sortedAttrs(c.Attrs) == ref, "decoration-styled-alike-on-every-line")
		}
	}
	verifrt.Reach("end")
}

func vLeafCharNoNL(name string) string {
	b := verifrt.Byte(name)
	verifrt.Assume(verifrt.All(b < 0x7f, b > 0x20))
	return string(rune(b))
}

// VerifC14Wide: a line break followed by an arbitrary non-ASCII character
// (combining marks, wide and astral characters included) under a style: the
// break stays unstyled and every character keeps exactly its attributes.
func VerifC14Wide() {
	a := vLeafCharNoNL("ch")
	r := verifrt.Rune("wide")
	verifrt.Assume(verifrt.All(r >= 0xa0, r != 0x2028, r != 0x2029))
	for _, d := range decoration {
		verifrt.Assume(r != d)
	}
	op := vOps[[]int{1, 7, 9, 10, 12}[verifrt.Choice("op", 5)]] // Bold, Color, Link, QuoteBlock, Header
	pos := verifrt.Choice("pos", 3)
	var text string
	switch pos {
	case 0:
		text = a + "\n" + string(r) + a
	case 1:
		text = string(r) + "\n" + a
	default:
		text = a + string(r) + "\n" + string(r)
	}
	want := []string{}
	for _, c := range text {
		if c != '\n' {
			want = append(want, expectAttrs(op.attrs()))
		}
	}
	c14check(want, op.apply(text), "wide", false)
	verifrt.Reach("end")
}
