//go:build verif

package client

import (
	"net/url"
	"servitor/jtp"
	"servitor/verifrt"
	"strconv"
)

// Every generated JSON object carries a unique "_tag"; servedBy records which
// host really served the document (or the enclosing document) it came in.
type c02World struct {
	w        *jtp.VWorld
	urls     []string
	hosts    []string
	servedBy map[float64]string
	nextTag  float64
}

const c02Third = "https://third.example/x"

func (cw *c02World) tag(host string) float64 {
	cw.nextTag++
	cw.servedBy[cw.nextTag] = host
	return cw.nextTag
}

// idClaim: what an object says its id is.
func (cw *c02World) idClaim(name string, self int) (string, bool) {
	id, has := cw.idClaimHTTPS(name, self)
	// an id need not be an https URL to name a host
	if has && (self < 0 || verifrt.Param("servedschemes", 0) == 1) && verifrt.Choice(name+"-scheme", 2) == 1 {
		id = "http" + id[len("https"):]
	}
	return id, has
}

func (cw *c02World) idClaimHTTPS(name string, self int) (string, bool) {
	extra := 3
	if self < 0 {
		extra = 4 // symbolic digits only in embedded objects (served bodies go through encoding/json natively)
	}
	k := verifrt.Choice(name, len(cw.urls)+extra)
	switch {
	case k == len(cw.urls)+3:
		// a URL whose address and port digits are solver variables: it may
		// name host A, B, C or nobody
		d1, d2 := verifrt.Byte(name+"-addr"), verifrt.Byte(name+"-port")
		verifrt.Assume(verifrt.All(verifrt.InSet(d1, "12"), verifrt.InSet(d2, "12")))
		return "https://127.0.0." + string(rune(d1)) + ":4781" + string(rune(d2)) + "/s" + strconv.Itoa(verifrt.Choice(name+"-path", len(cw.urls))), true
	case k == 0:
		return "", false
	case k == 1:
		if self >= 0 {
			return cw.urls[self], true
		}
		return "", false
	case k == 2:
		return c02Third, true
	default:
		return cw.urls[k-3], true
	}
}

func jsonString(s string) string { return strconv.Quote(s) }

// doc renders a JSON document; stub = an object of at most two keys.
func docJSON(id string, hasID bool, tag float64, stub bool) string {
	s := `{"_tag":` + strconv.FormatFloat(tag, 'f', -1, 64)
	if hasID {
		s += `,"id":` + jsonString(id)
	}
	if !stub {
		s += `,"type":"Note","content":"x"`
	}
	return s + "}"
}

func httpDoc(body string) string {
	return "HTTP/1.1 200 OK\r\nContent-Type: application/activity+json\r\n\r\n" + body
}

func c02Build(nslots int) *c02World {
	cw := &c02World{w: jtp.NewWorld(), servedBy: map[float64]string{}}
	for i := 0; i < nslots; i++ {
		host := []string{jtp.VHostA, jtp.VHostB, jtp.VHostC}[i%3]
		cw.hosts = append(cw.hosts, host)
		cw.urls = append(cw.urls, "https://"+host+"/s"+strconv.Itoa(i))
	}
	for i := 0; i < nslots; i++ {
		route := cw.hosts[i] + "/s" + strconv.Itoa(i)
		if i > 0 {
			// secondary URLs: an honest document, nothing, or a document that
			// claims to be the first URL's object (it lives on another origin)
			switch verifrt.Choice("secondary", 3) {
			case 0:
				cw.w.Routes[route] = jtp.NewResp(httpDoc(docJSON(cw.urls[i], true, cw.tag(cw.hosts[i]), false)))
			case 1:
				cw.w.Routes[route] = jtp.NewResp("HTTP/1.1 404 Not Found\r\n\r\n")
			default:
				cw.w.Routes[route] = jtp.NewResp(httpDoc(docJSON(cw.urls[0], true, cw.tag(cw.hosts[i]), false)))
			}
			continue
		}
		switch verifrt.Choice("behaviour", 4) {
		case 0, 1: // a document (full or stub) with some id claim
			stub := verifrt.Choice("stub", 2) == 1
			id, has := cw.idClaim("claim", i)
			cw.w.Routes[route] = jtp.NewResp(httpDoc(docJSON(id, has, cw.tag(cw.hosts[i]), stub)))
		case 2: // redirect to another URL of the world (same or other host)
			j := verifrt.Choice("redirect", nslots)
			cw.w.Routes[route] = jtp.NewResp("HTTP/1.1 301 Moved\r\nLocation: " + cw.urls[j] + "\r\n\r\n")
		default:
			cw.w.Routes[route] = jtp.NewResp("HTTP/1.1 404 Not Found\r\n\r\n")
		}
	}
	return cw
}

// VerifC02FetchUnknown: whatever FetchUnknown accepts under an id was served
// by the host the id names.
func VerifC02FetchUnknown() {
	nslots := verifrt.Param("slots", 4)
	cw := c02Build(nslots)
	jtp.VerifUseWorld(cw.w, 8)

	// where the reference or the embedded object was found
	var source *url.URL
	sourceHost := ""
	if verifrt.Choice("hassource", 2) == 1 {
		si := verifrt.Choice("source", 2)
		source, _ = url.Parse(cw.urls[si])
		sourceHost = cw.hosts[si]
	}
	var input any
	switch verifrt.Choice("input", 4) {
	case 0: // absolute URL
		input = cw.urls[verifrt.Choice("target", 2)]
	case 1: // relative reference
		input = "/s" + strconv.Itoa(verifrt.Choice("target", 2))
	case 2: // embedded object, part of the document `source` points to (or typed in by the user)
		id, has := cw.idClaim("embedclaim", -1)
		m := map[string]any{"_tag": cw.tag(sourceHost)}
		if has {
			m["id"] = id
		}
		if verifrt.Choice("embedstub", 2) == 0 {
			m["type"], m["content"] = "Note", "x"
		}
		input = m
	default:
		input = 42.0
	}

	obj, id, err := FetchUnknown(input, source)
	if err == nil {
		verifrt.Assert(obj != nil, "no-error-means-an-object")
		if id != nil {
			tag, _ := obj["_tag"].(float64)
			verifrt.Assert(cw.servedBy[tag] == id.Host, "object-served-by-the-host-its-id-names")
			claimed, _ := obj["id"].(string)
			verifrt.Assert(claimed == id.String(), "returned-id-is-the-object's-own-claim")
		}
		verifrt.Observe("id", id != nil)
	} else {
		verifrt.Assert(obj == nil && id == nil, "error-comes-alone")
	}
	verifrt.Observe("ok", err == nil)
	verifrt.Reach("end")
}
