//go:build verif

package client

import (
	"servitor/jtp"
	"servitor/verifrt"
)

// VerifC04Webfinger: a handle typed by the user (or found in content) cannot
// shape the request beyond its query value.
func VerifC04Webfinger() {
	w := jtp.NewWorld()
	w.Routes[jtp.VHostA+"/"] = jtp.NewResp("HTTP/1.0 404 Not Found\r\n\r\n")
	jtp.VerifUseWorld(w, 2)
	acct := verifrt.Bytes("acct", verifrt.Choice("len", verifrt.Param("bytes", 2)+1))
	for i := 0; i < len(acct); i++ {
		verifrt.Assume(acct[i] < 0x80 && acct[i] != '@') // the first '@' separates account and domain
	}
	_, _ = ResolveWebfinger(acct + "@" + jtp.VHostA)
	reqs := jtp.VerifRequests()
	verifrt.Assert(len(reqs) <= 1, "at-most-one-connection-per-lookup")
	for _, r := range reqs {
		jtp.VerifCheckRequest(r, "application/jrd+json")
		verifrt.Assert(r.Host == jtp.VHostA, "connection-goes-to-the-handle's-domain")
		verifrt.Observe("request", r.Raw)
	}
	verifrt.Reach("end")
}
