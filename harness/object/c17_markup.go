//go:build verif

package object

import (
	"servitor/gemtext"
	"servitor/hypertext"
	"servitor/plaintext"
	"servitor/verifrt"
)

// VerifC17Markup: GetMarkup picks the renderer the media type names, defaults
// to HTML when none is given, and classifies everything else as absent or an error.
func VerifC17Markup() {
	o := Object{}
	contentKind := verifrt.Choice("content", 4)
	switch contentKind {
	case 0:
	case 1:
		o["content"] = ""
	case 2:
		o["content"] = 7.0
	default:
		o["content"] = "some *text* https://a.b/c"
	}
	mts := []any{nil, "text/plain", "text/html; charset=utf-8", "text/gemini", "text/markdown", "image/png", "garbage", true, "\x07"}
	k := verifrt.Choice("mediatype", len(mts)+1)
	if k < len(mts) && mts[k] != nil {
		o["mediaType"] = mts[k]
	} else if k == len(mts) {
		o["mediaType"] = nil // explicit null is the same as absent
	}
	m, links, err := o.GetMarkup("content", "mediaType")
	switch {
	case contentKind == 0 || contentKind == 1:
		verifrt.Assert(isAbsent(err) && m == nil, "markup-absent-without-content")
	case contentKind == 2:
		verifrt.Assert(isWrongType(err) && m == nil, "markup-wrong-type-content")
	default:
		kind := "error"
		if k >= len(mts) || mts[k] == nil || mts[k] == "\x07" {
			kind = "html" // no usable media type: the default applies
		} else if s, isStr := mts[k].(string); isStr {
			switch s {
			case "text/plain":
				kind = "plain"
			case "text/html; charset=utf-8":
				kind = "html"
			case "text/gemini":
				kind = "gemini"
			case "text/markdown":
				kind = "html" // markdown is converted and rendered as HTML
			}
		}
		if kind == "error" {
			verifrt.Assert(err != nil && !isAbsent(err) && m == nil, "markup-unsupported-or-ill-typed-media-type-is-an-error")
		} else {
			verifrt.Assert(err == nil && m != nil && links != nil, "markup-built")
			_, isPlain := m.(*plaintext.Markup)
			_, isHTML := m.(*hypertext.Markup)
			_, isGem := m.(*gemtext.Markup)
			verifrt.Assert((kind == "plain") == isPlain && (kind == "html") == isHTML && (kind == "gemini") == isGem, "markup-renderer-matches-media-type")
			if m != nil {
				verifrt.Observe("rendered", m.Render(20))
			}
		}
	}
	verifrt.Reach("end")
}
