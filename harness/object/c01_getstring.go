//go:build verif

package object

import "servitor/verifrt"

// VerifC01GetString: any string from fetched JSON is clean once it has
// passed the accessor.
func VerifC01GetString() {
	n := verifrt.Choice("len", verifrt.Param("runes", 2)+1)
	raw := ""
	for i := 0; i < n; i++ {
		raw += string(verifrt.Rune("r")) // every scalar, NUL and controls included
	}
	o := Object{"k": raw}
	s, err := o.GetString("k")
	if err == nil {
		verifrt.Assert(verifrt.CleanOutput(s), "getstring-output-clean")
	}
	verifrt.Observe("s", s)
	verifrt.Reach("end")
}
