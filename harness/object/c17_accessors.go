//go:build verif

package object

import (
	"errors"
	"net/url"
	"servitor/verifrt"
	"time"
)

const (
	kAbsent = iota
	kNull
	kBool
	kNumber
	kString
	kList
	kObject
	kKinds
)

func vRunes(name string, max int) []rune {
	n := verifrt.Choice(name+"-len", max+1)
	out := make([]rune, n)
	for i := range out {
		out[i] = verifrt.Rune(name)
	}
	return out
}

func vFloat(name string) float64 {
	f := verifrt.Float64(name)
	verifrt.Assume(f == f)     // encoding/json never yields NaN
	verifrt.Assume(f-f == 0.0) // ... nor an infinity
	return f
}

// vSimple: a JSON value without nesting (used for list elements).
func vSimple(name string) any {
	switch verifrt.Choice(name+"-ekind", 4) {
	case 0:
		return nil
	case 1:
		return verifrt.Bool(name + "-b")
	case 2:
		return vFloat(name + "-f")
	default:
		return string(vRunes(name+"-s", 1))
	}
}

// statement's own notion of sanitising: tab -> four spaces, then every
// control character except newline is dropped.
func refScrub(rs []rune) string {
	out := ""
	for _, r := range rs {
		switch {
		case r == '\t':
			out += "    "
		case r == '\n':
			out += "\n"
		case r < 0x20 || (r >= 0x7f && r <= 0x9f):
		default:
			out += string(r)
		}
	}
	return out
}

type c17case struct {
	kind  int
	obj   Object
	b     bool
	f     float64
	runes []rune
	list  []any
	m     map[string]any
}

func c17value(maxRunes int) *c17case {
	c := &c17case{obj: Object{"other": "x"}}
	c.kind = verifrt.Choice("kind", kKinds)
	switch c.kind {
	case kAbsent:
	case kNull:
		c.obj["k"] = nil
	case kBool:
		c.b = verifrt.Bool("b")
		c.obj["k"] = c.b
	case kNumber:
		c.f = vFloat("f")
		c.obj["k"] = c.f
	case kString:
		c.runes = vRunes("s", maxRunes)
		c.obj["k"] = string(c.runes)
	case kList:
		n := verifrt.Choice("listlen", 3)
		c.list = make([]any, n)
		for i := range c.list {
			c.list[i] = vSimple("el")
		}
		c.obj["k"] = c.list
	case kObject:
		c.m = map[string]any{}
		if verifrt.Choice("objsize", 2) == 1 {
			c.m["inner"] = vSimple("ov")
		}
		c.obj["k"] = c.m
	}
	return c
}

func isAbsent(err error) bool    { return errors.Is(err, ErrKeyNotPresent) }
func isWrongType(err error) bool { return errors.Is(err, ErrKeyWrongType) }

// VerifC17Primitives: GetAny / GetString / GetNumber / GetObject / GetList on
// every JSON kind under a key (and the key missing).
func VerifC17Primitives() {
	c := c17value(verifrt.Param("runes", 2))
	o := c.obj
	absent := c.kind == kAbsent || c.kind == kNull

	// GetAny
	v, err := o.GetAny("k")
	verifrt.Assert((err != nil) == absent, "any-error-iff-absent")
	if absent {
		verifrt.Assert(isAbsent(err) && !isWrongType(err) && v == nil, "any-absent-class")
	}

	// GetString
	s, err := o.GetString("k")
	switch {
	case absent:
		verifrt.Assert(isAbsent(err) && s == "", "string-absent")
	case c.kind != kString:
		verifrt.Assert(isWrongType(err) && !isAbsent(err) && s == "", "string-wrong-type")
	default:
		want := refScrub(c.runes)
		if want == "" {
			verifrt.Assert(isAbsent(err) && s == "", "string-empty-is-absent")
		} else {
			verifrt.Assert(err == nil, "string-accepted")
			verifrt.Assert(s == want, "string-sanitised-value")
		}
		verifrt.Observe("string", s)
	}

	// GetNumber
	n, err := o.GetNumber("k")
	switch {
	case absent:
		verifrt.Assert(isAbsent(err) && n == 0, "number-absent")
	case c.kind != kNumber:
		verifrt.Assert(isWrongType(err) && !isAbsent(err) && n == 0, "number-wrong-type")
	default:
		f := c.f
		if err == nil {
			verifrt.Assert(f >= 0, "number-accepted-only-if-nonnegative")
			verifrt.Assert(f < 18446744073709551616.0, "number-accepted-only-if-in-range")
			verifrt.Assert(float64(n) == f, "number-value-exact")
		} else {
			verifrt.Assert(!isAbsent(err) && n == 0, "number-rejection-class")
			// a rejected number must really be unrepresentable
			inRange := f >= 0 && f < 18446744073709551616.0
			if inRange {
				verifrt.Assert(float64(uint64(f)) != f, "number-rejected-only-if-not-integral")
			}
		}
		verifrt.Observe("number", n)
		verifrt.Observe("number-ok", err == nil)
	}

	// GetObject
	m, err := o.GetObject("k")
	switch {
	case absent:
		verifrt.Assert(isAbsent(err) && m == nil, "object-absent")
	case c.kind != kObject:
		verifrt.Assert(isWrongType(err) && m == nil, "object-wrong-type")
	default:
		verifrt.Assert(err == nil && len(m) == len(c.m), "object-returned")
	}

	// GetList: lists as they are, single values promoted
	l, err := o.GetList("k")
	switch {
	case absent:
		verifrt.Assert(isAbsent(err) && l == nil, "list-absent")
	case c.kind == kList:
		verifrt.Assert(err == nil && len(l) == len(c.list), "list-returned")
	default:
		verifrt.Assert(err == nil && len(l) == 1, "list-promotes-single")
		switch c.kind {
		case kBool:
			verifrt.Assert(l[0] == any(c.b), "list-promoted-bool")
		case kNumber:
			verifrt.Assert(l[0] == any(c.f), "list-promoted-number")
		case kString:
			verifrt.Assert(l[0] == any(string(c.runes)), "list-promoted-string")
		}
	}
	verifrt.Reach("end")
}

// ---- parsed accessors. Under the engine time.Parse and url.Parse are
// replaced by recording stubs with an arbitrary verdict, so what is decided
// is: classification, "the parser sees exactly the sanitised string", and
// "the parser's verdict is what comes back".

var stubArg string
var stubCalls int
var stubFail bool
var stubTime time.Time
var stubURL *url.URL

func VerifStubTimeParse(layout, value string) (time.Time, error) {
	stubCalls++
	stubArg = value
	if stubFail {
		return time.Time{}, errors.New("stub: cannot parse")
	}
	return stubTime, nil
}

func VerifStubURLParse(raw string) (*url.URL, error) {
	stubCalls++
	stubArg = raw
	if stubFail {
		return nil, errors.New("stub: cannot parse")
	}
	return stubURL, nil
}

func VerifC17Parsed() {
	c := c17value(verifrt.Param("runes", 2))
	o := c.obj
	absent := c.kind == kAbsent || c.kind == kNull
	want := ""
	if c.kind == kString {
		want = refScrub(c.runes)
	}
	symbolic := verifrt.Symbolic()
	stubFail = symbolic && verifrt.Choice("parser-verdict", 2) == 1
	stubTime = time.Unix(1700000000, 0).UTC()
	stubURL = &url.URL{Scheme: "https", Host: "stub.example", Path: "/x"}

	// GetTime
	stubCalls, stubArg = 0, ""
	t, err := o.GetTime("k")
	switch {
	case absent || (c.kind == kString && want == ""):
		verifrt.Assert(isAbsent(err) && t.IsZero(), "time-absent")
	case c.kind != kString:
		verifrt.Assert(isWrongType(err) && t.IsZero(), "time-wrong-type")
	default:
		verifrt.Assert(!isAbsent(err) && !isWrongType(err), "time-string-class")
		if symbolic {
			verifrt.Assert(stubCalls == 1 && stubArg == want, "time-parser-sees-sanitised-string")
			if stubFail {
				verifrt.Assert(err != nil && t.IsZero(), "time-parser-failure-reported")
			} else {
				verifrt.Assert(err == nil && t.Equal(stubTime), "time-parser-value-returned")
			}
		}
	}

	// GetURL
	stubCalls, stubArg = 0, ""
	u, err := o.GetURL("k")
	switch {
	case absent || (c.kind == kString && want == ""):
		verifrt.Assert(isAbsent(err) && u == nil, "url-absent")
	case c.kind != kString:
		verifrt.Assert(isWrongType(err) && u == nil, "url-wrong-type")
	default:
		verifrt.Assert(!isAbsent(err) && !isWrongType(err), "url-string-class")
		if symbolic {
			verifrt.Assert(stubCalls == 1 && stubArg == want, "url-parser-sees-sanitised-string")
			if stubFail {
				verifrt.Assert(err != nil && u == nil, "url-parser-failure-reported")
			} else {
				verifrt.Assert(err == nil && u == stubURL, "url-parser-value-returned")
			}
		}
	}
	verifrt.Reach("end")
}

func isTokenOld(b byte) bool {
	switch {
	case b >= 'a' && b <= 'z', b >= 'A' && b <= 'Z', b >= '0' && b <= '9':
		return true
	}
	switch b {
	case '!', '#', '$', '%', '&', '\'', '*', '+', '-', '.', '^', '_', '`', '|', '~':
		return true
	}
	return false
}

// VerifC17MediaType: GetMediaType against RFC 9110's token "/" token.
func VerifC17MediaType() {
	n := verifrt.Param("bytes", 4)
	ln := verifrt.Choice("len", n+1)
	raw := verifrt.Bytes("mt", ln)
	for i := 0; i < len(raw); i++ {
		verifrt.Assume(raw[i] < 0x80) // ASCII regime; other bytes are not token characters either way
	}
	o := Object{"k": raw}
	mt, err := o.GetMediaType("k")

	// reference: the sanitised string must start with token "/" token
	rs := []rune(raw)
	clean := refScrub(rs)
	i := 0
	for i < len(clean) && isToken(clean[i]) {
		i++
	}
	j := i + 1
	for j < len(clean) && isToken(clean[j]) {
		j++
	}
	valid := i > 0 && i < len(clean) && clean[i] == '/' && j > i+1
	switch {
	case clean == "":
		verifrt.Assert(isAbsent(err) && mt == nil, "mediatype-absent")
	case !valid:
		verifrt.Assert(err != nil && !isAbsent(err) && mt == nil, "mediatype-rejected")
	default:
		verifrt.Assert(err == nil && mt != nil, "mediatype-accepted")
		verifrt.Assert(mt.Supertype == clean[:i] && mt.Subtype == clean[i+1:j] && mt.Essence == clean[:j], "mediatype-fields")
		verifrt.Observe("essence", mt.Essence)
	}
	verifrt.Reach("end")
}

const tokenChars = "!#$%&'*+-.^_`|~abcdefghijklmnopqrstuvwxyzABCDEFGHIJKLMNOPQRSTUVWXYZ0123456789"

func isToken(b byte) bool { return verifrt.InSet(b, tokenChars) }

// VerifC17ParsedValues: the value half of "timestamps, URLs ... parsed" with
// the real parsers (no stub): a well-formed URL or timestamp comes back as
// the value the JSON string denotes - every component, nothing folded,
// re-escaped or dropped - and writes itself back as the same string.
func VerifC17ParsedValues() {
	urls := []struct{ s, scheme, host, path, query, fragment string }{
		{"https://h.example/p/q?x=1&y=2#frag", "https", "h.example", "/p/q", "x=1&y=2", "frag"},
		{"https://h.example:8443/a%2Fb#sec-2", "https", "h.example:8443", "/a/b", "", "sec-2"},
		{"/relative/ref?x#y", "", "", "/relative/ref", "x", "y"},
		{"gemini://h.example/x", "gemini", "h.example", "/x", "", ""},
		{"https://[::1]:8/p#f", "https", "[::1]:8", "/p", "", "f"},
		{"https://h.example/#", "https", "h.example", "/", "", ""},
		{"mailto:a@h.example", "mailto", "", "", "", ""},
	}
	c := urls[verifrt.Choice("url", len(urls))]
	u, err := Object{"k": c.s}.GetURL("k")
	verifrt.Assert(err == nil && u != nil, "well-formed-url-accepted")
	if u != nil {
		verifrt.Assert(u.Scheme == c.scheme && u.Host == c.host && u.Path == c.path && u.RawQuery == c.query && u.Fragment == c.fragment, "url-components-as-in-the-json")
		if c.s != "https://h.example/#" {
			verifrt.Assert(u.String() == c.s, "url-writes-back-as-the-json-string")
		}
	}
	times := []string{"2024-01-02T03:04:05Z", "1999-12-31T23:59:59.123456789+05:30", "0001-01-01T00:00:00Z", "2024-02-29T12:00:00-08:00"}
	ts := times[verifrt.Choice("time", len(times))]
	t, err := Object{"k": ts}.GetTime("k")
	verifrt.Assert(err == nil, "well-formed-time-accepted")
	verifrt.Assert(t.Format(time.RFC3339Nano) == ts, "time-writes-back-as-the-json-string")
	verifrt.Reach("end")
}
