//go:build verif

package history

import "servitor/verifrt"

// reference model: a list with a cursor
type refHistory struct {
	elems []int
	idx   int
}

func (r *refHistory) add(x int) {
	if len(r.elems) == 0 {
		r.elems = []int{x}
		r.idx = 0
		return
	}
	r.elems = append(append([]int{}, r.elems[:r.idx+1]...), x)
	r.idx++
}
func (r *refHistory) back() {
	if r.idx > 0 {
		r.idx--
	}
}
func (r *refHistory) forward() {
	if r.idx+1 < len(r.elems) {
		r.idx++
	}
}

func sameHistory(h *History[int], r *refHistory) bool {
	if len(h.elements) != len(r.elems) {
		return false
	}
	if len(r.elems) > 0 && h.index != r.idx {
		return false
	}
	ok := true
	for i := range r.elems {
		ok = ok && h.elements[i] == r.elems[i]
	}
	return ok
}

// VerifC18HistorySeq: a sequence of symbolic operations from the empty history.
func VerifC18HistorySeq() {
	n := verifrt.Param("ops", 5)
	h := &History[int]{}
	r := &refHistory{}
	verifrt.Assert(h.IsEmpty(), "empty-initially")
	for i := 0; i < n; i++ {
		switch verifrt.Choice("op", 3) {
		case 0:
			x := verifrt.Int("elem", -1000, 1000)
			h.Add(x)
			r.add(x)
		case 1:
			if !h.IsEmpty() { // the UI never navigates an empty history
				h.Back()
				r.back()
			}
		case 2:
			if !h.IsEmpty() {
				h.Forward()
				r.forward()
			}
		}
		verifrt.Assert(sameHistory(h, r), "seq-matches-model")
		verifrt.Assert(h.IsEmpty() == (len(r.elems) == 0), "isempty-matches")
		if len(r.elems) > 0 {
			verifrt.Assert(h.Current() == r.elems[r.idx], "current-defined-and-right")
		}
	}
	verifrt.Reach("end")
}

// VerifC18HistoryStep: one operation from an arbitrary well-formed state
// (covers histories of any length up to the element bound).
func VerifC18HistoryStep() {
	maxLen := verifrt.Param("len", 4)
	n := verifrt.Choice("len", maxLen+1)
	slack := verifrt.Choice("capslack", 3) // spare capacity, as left by earlier appends
	backing := make([]int, n, n+slack)
	r := &refHistory{}
	for i := 0; i < n; i++ {
		backing[i] = verifrt.Int("e", -1000, 1000)
		r.elems = append(r.elems, backing[i])
	}
	// spare capacity holds stale elements, as after Back + Add
	stale := backing[:n+slack]
	for i := n; i < n+slack; i++ {
		stale[i] = verifrt.Int("stale", -1000, 1000)
	}
	h := &History[int]{}
	if n > 0 {
		h.elements = backing
		h.index = verifrt.Int("index", 0, n-1)
		r.idx = h.index
	}
	before := append([]int{}, r.elems...)
	beforeIdx := r.idx
	switch verifrt.Choice("op", 3) {
	case 0:
		x := verifrt.Int("x", -1000, 1000)
		h.Add(x)
		r.add(x)
		// opening a page discards the forward entries and nothing else
		verifrt.Assert(len(h.elements) == beforeIdx+2 || n == 0, "add-discards-only-forward")
		ok := true
		for i := 0; i <= beforeIdx && i < n; i++ {
			ok = ok && h.elements[i] == before[i]
		}
		verifrt.Assert(ok, "add-keeps-past")
		verifrt.Assert(h.Current() == x, "add-current-is-new")
	case 1:
		if n > 0 {
			h.Back()
			r.back()
		}
	case 2:
		if n > 0 {
			h.Forward()
			r.forward()
		}
	}
	verifrt.Assert(sameHistory(h, r), "step-matches-model")
	if len(r.elems) > 0 {
		verifrt.Assert(h.index >= 0 && h.index < len(h.elements), "invariant-index-in-range")
		verifrt.Assert(h.Current() == r.elems[r.idx], "current-defined-and-right")
	}
	verifrt.Observe("len", len(h.elements))
	verifrt.Observe("index", h.index)
	verifrt.Reach("end")
}
