//go:build verif

package history

// Read-only accessors for harnesses in other packages.
func VerifLen[T any](h *History[T]) int   { return len(h.elements) }
func VerifIndex[T any](h *History[T]) int { return h.index }
func VerifAt[T any](h *History[T], i int) T { return h.elements[i] }
