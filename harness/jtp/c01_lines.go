//go:build verif

package jtp

import (
	"net/url"
	"servitor/verifrt"
)

// VerifResponseLineError: the error (if any) servitor derives from one raw
// response line in each of the places a line is quoted.
func VerifResponseLineError(kind int, line string) error {
	switch kind {
	case 0:
		_, err := parseStatusLine(line)
		return err
	case 1:
		_, _, err := parseContentType(line)
		return err
	default:
		base, _ := url.Parse("https://h.example/a")
		_, _, err := parseLocation(line, base)
		return err
	}
}

var _ = verifrt.Symbolic
