//go:build verif

package jtp

import (
	"net/url"
	"servitor/verifrt"
	"strings"
)

func countByte(s string, b byte) int {
	n := 0
	for i := 0; i < len(s); i++ {
		if s[i] == b {
			n++
		}
	}
	return n
}

// VerifCheckRequest: the shape every request servitor sends must have.
func VerifCheckRequest(r *VRequest, accept string) {
	verifrt.Assert(r.Writes == 1, "one-write-per-connection")
	raw := r.Raw
	verifrt.Assert(strings.HasPrefix(raw, "GET "), "request-is-a-get")
	verifrt.Assert(strings.HasSuffix(raw, "\r\nAccept: "+accept+"\r\n\r\n"), "request-ends-with-accept-header-and-blank-line")
	verifrt.Assert(countByte(raw, '\r') == 4 && countByte(raw, '\n') == 4, "exactly-request-line-host-accept-and-blank-line")
	lines := strings.Split(raw, "\r\n")
	if len(lines) == 5 {
		verifrt.Assert(strings.HasSuffix(lines[0], " HTTP/1.0"), "request-line-is-http-1.0")
		verifrt.Assert(strings.HasPrefix(lines[1], "Host: "), "second-line-is-host")
		verifrt.Assert(strings.HasPrefix(lines[2], "Accept: "), "third-line-is-accept")
	}
}

// VerifC04URL: requests for URLs with hostile bytes.
func VerifC04URL() {
	// whatever status the server answers with, the client sends one request
	d1, d2, d3 := verifrt.Byte("status"), verifrt.Byte("status"), verifrt.Byte("status")
	verifrt.Assume(verifrt.All(verifrt.InSet(d1, "12345"), d2 >= '0', d2 <= '9', d3 >= '0', d3 <= '9'))
	w := NewWorld()
	answer := "HTTP/1.0 " + string([]byte{d1, d2, d3}) + " Whatever\r\nContent-Type: application/activity+json\r\n\r\n{}"
	w.Routes[VHostA+"/"] = NewResp(answer)
	w.Routes[VHostB+"/x?q=1"] = NewResp(answer)
	w.Routes[VHostA+"/x"] = NewResp(answer)
	VerifUseWorld(w, 2)
	shape := verifrt.Choice("prefix", 4)
	max := verifrt.Param("bytes", 2)
	tail := verifrt.Bytes("u", verifrt.Choice("len", max+1))
	for i := 0; i < len(tail); i++ {
		verifrt.Assume(tail[i] < 0x80) // every ASCII byte, controls included; other bytes are percent-encoded by net/url
	}
	raw := ""
	switch shape {
	case 0:
		raw = "https://" + VHostA + "/" + tail
		if len(tail) == 2 && verifrt.Choice("escape", 2) == 1 {
			raw = "https://" + VHostA + "/%" + tail // a percent-escape with arbitrary digits, e.g. %0a
		}
	case 1:
		raw = "https://" + VHostA + tail
	case 2:
		raw = "http" + tail + "://" + VHostA + "/x"
	default:
		raw = "https://" + tail + VHostB + "/x?q=1"
	}
	link, err := url.Parse(raw)
	if err != nil {
		verifrt.Reach("end")
		return
	}
	before := len(VerifRequests())
	_, _, _ = Get(link, c03Accept, c03Tolerated, 0)
	reqs := VerifRequests()[before:]
	verifrt.Assert(len(reqs) <= 1, "at-most-one-connection-per-fetch")
	if link.Scheme != "https" {
		verifrt.Assert(len(reqs) == 0, "non-https-url-causes-no-connection")
	}
	for _, r := range reqs {
		VerifCheckRequest(r, c03Accept)
		port := link.Port()
		if port == "" {
			port = "443"
		}
		verifrt.Assert(r.Host == link.Hostname()+":"+port, "connection-goes-to-host-and-port-of-the-url")
		verifrt.Observe("request", r.Raw)
	}
	verifrt.Observe("requests", len(reqs))
	verifrt.Reach("end")
}

// VerifC04Redirects: nothing a server says - cookies, authentication
// challenges, any other header next to Location, on the redirect or on the
// final answer - shows up in a later request, on the next hop or in the next
// fetch: every request is exactly request line + Host + Accept for its URL.
func VerifC04Redirects() {
	extras := []string{
		"",
		"Set-Cookie: sid=abc; Path=/\r\n",
		"Set-Cookie: a=1\r\nset-cookie: b=2; Secure\r\n",
		"WWW-Authenticate: Basic realm=\"x\"\r\nProxy-Authenticate: Basic\r\n",
		"Link: </other>; rel=preload\r\nETag: \"v1\"\r\nAlt-Svc: h2=\":443\"\r\n",
		"Accept: text/html\r\nUser-Agent: echo-me\r\nReferer: https://t.example/\r\nAuthorization: Bearer t\r\n",
	}
	extra := extras[verifrt.Choice("extra", len(extras))]
	d := verifrt.Byte("status")
	verifrt.Assume(verifrt.InSet(d, "12378"))
	same := verifrt.Choice("samehost", 2) == 1
	target := VHostB
	if same {
		target = VHostA
	}
	loc := "https://" + target + "/next?x=1"
	if same && verifrt.Choice("relative", 2) == 1 {
		loc = "/next?x=1"
	}
	doc := "HTTP/1.0 200 OK\r\n" + extra + "Content-Type: application/activity+json\r\n\r\n{\"k\":1}"
	w := NewWorld()
	w.Routes[VHostA+"/start"] = NewResp("HTTP/1.0 30" + string([]byte{d}) + " Moved\r\n" + extra + "Location: " + loc + "\r\n\r\n")
	w.Routes[target+"/next?x=1"] = NewResp(doc)
	w.Routes[VHostA+"/other"] = NewResp(doc)
	VerifUseWorld(w, 2)
	start, _ := url.Parse("https://" + VHostA + "/start")
	other, _ := url.Parse("https://" + VHostA + "/other")
	_, _, err1 := Get(start, c03Accept, c03Tolerated, 2)
	_, _, err2 := Get(other, c03Accept, c03Tolerated, 2)
	verifrt.Assert(err1 == nil && err2 == nil, "both-fetches-succeed")
	reqs := VerifRequests()
	want := [][2]string{{VHostA, "/start"}, {target, "/next?x=1"}, {VHostA, "/other"}}
	verifrt.Assert(len(reqs) == len(want), "one-request-per-hop-and-fetch")
	for i, r := range reqs {
		VerifCheckRequest(r, c03Accept)
		if i < len(want) {
			verifrt.Assert(r.Host == want[i][0], "connection-goes-to-the-host-of-the-hop")
			verifrt.Assert(r.Raw == "GET "+want[i][1]+" HTTP/1.0\r\nHost: "+want[i][0]+"\r\nAccept: "+c03Accept+"\r\n\r\n", "request-is-exactly-line-host-accept")
		}
	}
	verifrt.Observe("requests", len(reqs))
	verifrt.Reach("end")
}
