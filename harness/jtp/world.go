//go:build verif

package jtp

// A small "network world" shared by the network harnesses.
//
// Under the engine, tls.DialWithDialer and the *tls.Conn methods are replaced
// by the Verif* stubs below, which serve the world's scripted responses from
// memory (with symbolic bytes where the harness put them). Natively the same
// world is served by real TLS listeners on 127.0.0.1 and 127.0.0.2 (fixed
// ports), trusted through SSL_CERT_FILE, and the unmodified jtp.Get talks to
// them.

import (
	"bufio"
	"crypto/ecdsa"
	"crypto/elliptic"
	"crypto/rand"
	"crypto/tls"
	"crypto/x509"
	"crypto/x509/pkix"
	"encoding/pem"
	"errors"
	"io"
	"math/big"
	"net"
	"os"
	"path/filepath"
	"servitor/config"
	"servitor/verifrt"
	"strings"
	"sync"
	"time"

)

const (
	VHostA = "127.0.0.1:47811"
	VHostB = "127.0.0.2:47811"
	VHostC = "127.0.0.1:47812" // same address as A, another port: a different origin
	VHostD = "127.0.0.2:47812" // accepts TCP connections and never speaks (natively)
)

// VResp scripts one response.
type VResp struct {
	Raw      string // the bytes the server sends
	CutAt    int    // >=0: the server closes after this many bytes
	StallAt  int    // >=0: the server stops sending after this many bytes and keeps the connection open
	Trickle  bool   // one byte per read, the clock advancing between reads
	NoAnswer bool   // accept, read the request, never answer (same as StallAt 0)
}

func NewResp(raw string) *VResp { return &VResp{Raw: raw, CutAt: -1, StallAt: -1} }

type VRequest struct {
	Host string // host:port dialled
	Raw  string // bytes written by the client
	Writes int
}

type VWorld struct {
	Routes   map[string]*VResp // "host:port" + request-target
	Refuse   map[string]bool   // hosts that refuse connections
	StallHandshake map[string]bool // hosts that accept TCP and then stay silent (no TLS handshake)
	Log      []*VRequest
	Chunk    int // max bytes per Read under the engine (0 = everything available)
	AnyHost  bool // engine: any syntactically valid host accepts connections
	mu       sync.Mutex
}

func NewWorld() *VWorld {
	return &VWorld{Routes: map[string]*VResp{}, Refuse: map[string]bool{}, StallHandshake: map[string]bool{}}
}

var vWorld *VWorld

// ---- engine side: simulated connections

type simConn struct {
	host     string
	req      *VRequest
	resp     *VResp
	pos      int
	closed   bool
	deadline time.Time
	hasDeadline bool
}

var simConns = map[*tls.Conn]*simConn{}

// VClock is the stub clock (engine): virtual milliseconds.
var VClock time.Time

func VerifNow() time.Time { return VClock }

// simNetErr: what the net package reports - an error that implements
// net.Error. A connection attempt can also fail with an error that does not
// (the peer closes or sends garbage during the TLS handshake: io.EOF,
// tls.RecordHeaderError), see refusal().
type simNetErr struct {
	msg     string
	timeout bool
}

func (e *simNetErr) Error() string   { return e.msg }
func (e *simNetErr) Timeout() bool   { return e.timeout }
func (e *simNetErr) Temporary() bool { return e.timeout }

var errRefused error = &simNetErr{msg: "dial tcp: connection refused"}
var errTimeout error = &simNetErr{msg: "i/o timeout", timeout: true}
var errHandshakeEOF = errors.New("EOF")

// refusal: how a failed connection attempt is reported (natively the
// listener accepts and closes, which the client sees as EOF in the handshake).
func refusal() error {
	if verifrt.Choice("refusal-kind", 2) == 1 {
		return errHandshakeEOF
	}
	return errRefused
}
var errClosed = errors.New("use of closed connection")

func validHost(hostport string) bool {
	// the resolver contract: an IP literal or letters, digits, dots, dashes, underscores
	h, _, err := net.SplitHostPort(hostport)
	if err != nil || h == "" {
		return false
	}
	for i := 0; i < len(h); i++ {
		if !verifrt.InSet(h[i], "abcdefghijklmnopqrstuvwxyzABCDEFGHIJKLMNOPQRSTUVWXYZ0123456789.-_:[]") {
			return false
		}
	}
	return true
}

func VerifDial(dialer *net.Dialer, network, addr string, cfg *tls.Config) (*tls.Conn, error) {
	w := vWorld
	verifrt.Assert(network == "tcp", "dials-tcp-only")
	if !validHost(addr) {
		return nil, errors.New("dial tcp: lookup: no such host")
	}
	known := false
	for k := range w.Routes {
		if strings.HasPrefix(k, addr+"/") || strings.HasPrefix(k, addr+"?") || k == addr {
			known = true
		}
	}
	if w.AnyHost && !w.Refuse[addr] {
		known = true
	}
	if !known {
		return nil, errRefused
	}
	if w.Refuse[addr] {
		return nil, refusal()
	}
	if w.StallHandshake[addr] {
		// tls.DialWithDialer bounds connecting and the handshake by Dialer.Timeout
		VClock = VClock.Add(dialer.Timeout)
		return nil, errTimeout
	}
	c := &tls.Conn{}
	sc := &simConn{host: addr, req: &VRequest{Host: addr}}
	w.Log = append(w.Log, sc.req)
	simConns[c] = sc
	return c, nil
}

// ---- the same connection reached through net.Dialer.Dial + tls.Client +
// Handshake (code that does not use tls.DialWithDialer)

type simNetConn struct {
	host        string
	deadline    time.Time
	hasDeadline bool
}

type simAddr struct{}

func (simAddr) Network() string { return "tcp" }
func (simAddr) String() string  { return "sim" }

func (c *simNetConn) Read(p []byte) (int, error)         { return 0, io.EOF }
func (c *simNetConn) Write(p []byte) (int, error)        { return len(p), nil }
func (c *simNetConn) Close() error                       { return nil }
func (c *simNetConn) LocalAddr() net.Addr                { return simAddr{} }
func (c *simNetConn) RemoteAddr() net.Addr               { return simAddr{} }
func (c *simNetConn) SetDeadline(t time.Time) error      { c.deadline, c.hasDeadline = t, !t.IsZero(); return nil }
func (c *simNetConn) SetReadDeadline(t time.Time) error  { return c.SetDeadline(t) }
func (c *simNetConn) SetWriteDeadline(t time.Time) error { return c.SetDeadline(t) }

func VerifNetDial(d *net.Dialer, network, addr string) (net.Conn, error) {
	w := vWorld
	verifrt.Assert(network == "tcp", "dials-tcp-only")
	if !validHost(addr) {
		return nil, errors.New("dial tcp: lookup: no such host")
	}
	known := w.AnyHost || w.StallHandshake[addr]
	for k := range w.Routes {
		if strings.HasPrefix(k, addr+"/") {
			known = true
		}
	}
	if !known || w.Refuse[addr] {
		return nil, errRefused
	}
	return &simNetConn{host: addr}, nil
}

var simUnder = map[*tls.Conn]*simNetConn{}

func VerifTLSClient(conn net.Conn, cfg *tls.Config) *tls.Conn {
	nc := conn.(*simNetConn)
	c := &tls.Conn{}
	sc := &simConn{host: nc.host, req: &VRequest{Host: nc.host}}
	simConns[c] = sc
	simUnder[c] = nc
	return c
}

func VerifHandshake(c *tls.Conn) error {
	sc := simConns[c]
	if vWorld.StallHandshake[sc.host] {
		nc := simUnder[c]
		if sc.hasDeadline || (nc != nil && nc.hasDeadline) {
			d := sc.deadline
			if !sc.hasDeadline {
				d = nc.deadline
			}
			if VClock.Before(d) {
				VClock = d
			}
			return errTimeout
		}
		verifrt.Hang("tls-handshake-without-deadline-on-a-silent-peer")
	}
	vWorld.Log = append(vWorld.Log, sc.req)
	return nil
}

// VerifPlainDial: any plaintext dial is a violation in itself.
func VerifPlainDial(network, addr string) (net.Conn, error) {
	verifrt.Assert(false, "no-plaintext-connection")
	return nil, errRefused
}

func VerifConnWrite(c *tls.Conn, p []byte) (int, error) {
	sc := simConns[c]
	if sc.closed {
		return 0, errClosed
	}
	sc.req.Raw += string(p)
	sc.req.Writes++
	return len(p), nil
}

func (sc *simConn) route() *VResp {
	if sc.resp != nil {
		return sc.resp
	}
	// request line: METHOD SP target SP version
	raw := sc.req.Raw
	target := ""
	if i := strings.Index(raw, " "); i >= 0 {
		rest := raw[i+1:]
		if j := strings.Index(rest, " HTTP/"); j >= 0 {
			target = rest[:j]
		}
	}
	if r, ok := vWorld.Routes[sc.host+target]; ok {
		sc.resp = r
	} else {
		sc.resp = NewResp("HTTP/1.0 404 Not Found\r\n\r\n")
	}
	return sc.resp
}

func VerifConnRead(c *tls.Conn, p []byte) (int, error) {
	sc := simConns[c]
	if sc.closed {
		return 0, errClosed
	}
	r := sc.route()
	limit := len(r.Raw)
	if r.CutAt >= 0 && r.CutAt < limit {
		limit = r.CutAt
	}
	stall := -1
	if r.NoAnswer {
		stall = 0
	} else if r.StallAt >= 0 {
		stall = r.StallAt
	}
	if stall >= 0 && stall < limit {
		limit = stall
	}
	if sc.pos >= limit {
		if stall >= 0 && sc.pos >= stall {
			// the peer is silent: only a deadline ends this read
			if sc.hasDeadline {
				if VClock.Before(sc.deadline) {
					VClock = sc.deadline
				}
				return 0, errTimeout
			}
			verifrt.Hang("read-without-deadline-on-a-silent-peer")
		}
		return 0, io.EOF
	}
	n := limit - sc.pos
	if n > len(p) {
		n = len(p)
	}
	if vWorld.Chunk > 0 && n > vWorld.Chunk {
		n = vWorld.Chunk
	}
	if r.Trickle {
		n = 1
		VClock = VClock.Add(400 * time.Millisecond)
		if sc.hasDeadline && !VClock.Before(sc.deadline) {
			return 0, errTimeout
		}
	}
	copy(p, r.Raw[sc.pos:sc.pos+n])
	sc.pos += n
	return n, nil
}

func VerifConnClose(c *tls.Conn) error {
	simConns[c].closed = true
	return nil
}

func VerifConnSetDeadline(c *tls.Conn, t time.Time) error {
	sc := simConns[c]
	sc.deadline, sc.hasDeadline = t, !t.IsZero()
	return nil
}

// ---- native side: real TLS listeners

var nativeOnce sync.Once
var nativeErr error

func startNative() {
	nativeOnce.Do(func() {
		dir, err := os.MkdirTemp("", "verif-tls-")
		if err != nil {
			nativeErr = err
			return
		}
		key, _ := ecdsa.GenerateKey(elliptic.P256(), rand.Reader)
		tmpl := &x509.Certificate{
			SerialNumber: big.NewInt(1), Subject: pkix.Name{CommonName: "verif loopback"},
			NotBefore: time.Now().Add(-time.Hour), NotAfter: time.Now().Add(24 * time.Hour),
			KeyUsage: x509.KeyUsageDigitalSignature | x509.KeyUsageCertSign, IsCA: true, BasicConstraintsValid: true,
			ExtKeyUsage: []x509.ExtKeyUsage{x509.ExtKeyUsageServerAuth},
			IPAddresses: []net.IP{net.ParseIP("127.0.0.1"), net.ParseIP("127.0.0.2")},
		}
		der, err := x509.CreateCertificate(rand.Reader, tmpl, tmpl, &key.PublicKey, key)
		if err != nil {
			nativeErr = err
			return
		}
		certPEM := pem.EncodeToMemory(&pem.Block{Type: "CERTIFICATE", Bytes: der})
		caFile := filepath.Join(dir, "ca.pem")
		os.WriteFile(caFile, certPEM, 0o644)
		os.Setenv("SSL_CERT_FILE", caFile)
		os.Setenv("SSL_CERT_DIR", dir)
		cert := tls.Certificate{Certificate: [][]byte{der}, PrivateKey: key}
		for _, host := range []string{VHostA, VHostB, VHostC} {
			ln, err := tls.Listen("tcp", host, &tls.Config{Certificates: []tls.Certificate{cert}})
			if err != nil {
				nativeErr = err
				return
			}
			go serve(ln, host)
		}
		silent, err := net.Listen("tcp", VHostD)
		if err != nil {
			nativeErr = err
			return
		}
		go func() {
			for {
				c, err := silent.Accept()
				if err != nil {
					return
				}
				go func() { time.Sleep(30 * time.Second); c.Close() }()
			}
		}()
	})
	if nativeErr != nil {
		panic("cannot start the loopback TLS world: " + nativeErr.Error())
	}
}

func serve(ln net.Listener, host string) {
	for {
		c, err := ln.Accept()
		if err != nil {
			return
		}
		go handle(c, host)
	}
}

func handle(c net.Conn, host string) {
	defer c.Close()
	w := vWorld
	if w == nil {
		return
	}
	w.mu.Lock()
	refuse := w.Refuse[host]
	w.mu.Unlock()
	if refuse {
		return
	}
	req := &VRequest{Host: host}
	br := bufio.NewReader(c)
	c.SetReadDeadline(time.Now().Add(5 * time.Second))
	var sb strings.Builder
	for {
		line, err := br.ReadString('\n')
		sb.WriteString(line)
		if err != nil || line == "\r\n" || line == "\n" {
			break
		}
	}
	req.Raw = sb.String()
	req.Writes = 1
	w.mu.Lock()
	w.Log = append(w.Log, req)
	w.mu.Unlock()
	target := ""
	if i := strings.Index(req.Raw, " "); i >= 0 {
		rest := req.Raw[i+1:]
		if j := strings.Index(rest, " HTTP/"); j >= 0 {
			target = rest[:j]
		}
	}
	w.mu.Lock()
	r, ok := w.Routes[host+target]
	w.mu.Unlock()
	if !ok {
		r = NewResp("HTTP/1.0 404 Not Found\r\n\r\n")
	}
	limit := len(r.Raw)
	if r.CutAt >= 0 && r.CutAt < limit {
		limit = r.CutAt
	}
	stall := -1
	if r.NoAnswer {
		stall = 0
	} else if r.StallAt >= 0 {
		stall = r.StallAt
	}
	if stall >= 0 && stall < limit {
		limit = stall
	}
	if r.Trickle {
		for i := 0; i < limit; i++ {
			if _, err := io.WriteString(c, r.Raw[i:i+1]); err != nil {
				return
			}
			time.Sleep(40 * time.Millisecond)
		}
	} else {
		io.WriteString(c, r.Raw[:limit])
	}
	if stall >= 0 {
		// stay silent until the client gives up (or the test ends)
		buf := make([]byte, 1)
		c.SetReadDeadline(time.Now().Add(30 * time.Second))
		c.Read(buf)
	}
}

// VerifUseWorld installs w for the current harness run and resets the
// package state a run could otherwise inherit.
func VerifUseWorld(w *VWorld, cacheSize int) {
	vWorld = w
	if verifrt.Symbolic() {
		// the cache is built the way the program builds it: jtp's own
		// initialisers run again with the wanted size in the configuration
		saved := config.Parsed.Network.CacheSize
		config.Parsed.Network.CacheSize = cacheSize
		verifrt.Reinit("servitor/jtp")
		config.Parsed.Network.CacheSize = saved
		simConns = map[*tls.Conn]*simConn{}
		VClock = time.Unix(1700000000, 0)
		return
	}
	// natively initialisers cannot run again: the cache is emptied and, if
	// its type can do that, resized (written against whatever type it has)
	if p, ok := any(cache).(interface{ Purge() }); ok {
		p.Purge()
	}
	if r, ok := any(cache).(interface{ Resize(int) int }); ok {
		r.Resize(cacheSize)
	}
	startNative()
	// keep native replays short: the real timeout is what the code under test uses
	config.Parsed.Network.Timeout = 400 * time.Millisecond
	dialer.Timeout = config.Parsed.Network.Timeout
}

// VerifRequests returns the requests the world has seen so far.
func VerifRequests() []*VRequest {
	w := vWorld
	w.mu.Lock()
	defer w.mu.Unlock()
	return append([]*VRequest{}, w.Log...)
}
