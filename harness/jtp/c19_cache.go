//go:build verif

package jtp

import (
	"crypto/tls"
	"net/url"
	"os"
	"path/filepath"
	"servitor/config"
	"servitor/verifrt"
	"strconv"
	"time"
)

func init() {
	// what a child process does after starting with the configuration under
	// test: fetch twice (nobody listens there; the fetches fail, which is fine)
	verifrt.RegisterChild("jtp-get", func() {
		u, _ := url.Parse("https://127.0.0.1:47819/nobody-listens-here")
		_, _, _ = Get(u, c03Accept, c03Tolerated, 1)
		_, _, _ = Get(u, c03Accept, c03Tolerated, 1)
	})
}

// VerifC19Cache: a cache size that validation accepts yields a working fetch
// layer. The cache is built by jtp's own package initialiser from the
// configuration in force when the program starts, so that is what runs:
// under the engine the package's initialisers are executed again with the
// candidate configuration (verifrt.Reinit); natively a child process is
// started with a configuration file holding the model's value.
func VerifC19Cache() {
	size := verifrt.Int64("cache_size")
	cfg := &config.Config{}
	cfg.Feeds = map[string][]string{}
	cfg.Style.Colors.Primary = "#A4f59b"
	cfg.Style.Colors.Error = "#9c3535"
	cfg.Style.Colors.Highlight = "#0d7d00"
	cfg.Style.Colors.Code = "#4b4b4b"
	cfg.Media.Hook = []string{"xdg-open", "%url"}
	cfg.Network.Context = 5
	cfg.Network.Timeout = config.Parsed.Network.Timeout
	cfg.Network.CacheSize = int(size)
	if err := config.VerifPostprocess(cfg); err != nil {
		verifrt.Observe("accepted", false)
		verifrt.Reach("end")
		return
	}
	verifrt.Observe("accepted", true)
	if verifrt.Symbolic() {
		saved := config.Parsed
		config.Parsed = cfg
		verifrt.Reinit("servitor/jtp")
		config.Parsed = saved
		w := NewWorld()
		w.Routes[VHostA+"/doc"] = NewResp("HTTP/1.0 200 OK\r\nContent-Type: application/activity+json\r\n\r\n{\"k\":1}")
		// (the world is installed without touching the cache the initialiser built)
		vWorld = w
		simConns = map[*tls.Conn]*simConn{}
		VClock = time.Unix(1700000000, 0)
		u, _ := url.Parse("https://" + VHostA + "/doc")
		_, _, err1 := Get(u, c03Accept, c03Tolerated, 1)
		_, _, err2 := Get(u, c03Accept, c03Tolerated, 1)
		verifrt.Assert(err1 == nil && err2 == nil, "fetch-layer-works-with-the-accepted-cache-size")
	} else {
		dir, err := os.MkdirTemp("", "verif-c19-")
		if err != nil {
			panic(err)
		}
		defer os.RemoveAll(dir)
		os.MkdirAll(filepath.Join(dir, "servitor"), 0o755)
		toml := "[network]\ncache_size = " + strconv.FormatInt(size, 10) + "\n"
		os.WriteFile(filepath.Join(dir, "servitor", "config.toml"), []byte(toml), 0o644)
		ok, out := verifrt.RunChild("jtp-get", []string{"XDG_CONFIG_HOME=" + dir})
		if !ok {
			panic("a process started with cache_size = " + strconv.FormatInt(size, 10) + " crashed: " + out)
		}
	}
	verifrt.Reach("end")
}
