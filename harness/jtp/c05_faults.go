//go:build verif

package jtp

import (
	"net/url"
	"servitor/config"
	"servitor/verifrt"
	"strings"
	"time"
)

const (
	fNone = iota
	fRefuse
	fCut
	fStall
	fTrickle
	fNoAnswer
	fHandshakeStall
	fKinds
)

// VerifC05Faults: a fault at any point of a one- or two-hop exchange ends in
// an error (or, if everything needed had already arrived, in the document),
// never in a hang, a crash or partial data.
func VerifC05Faults() {
	docRaw := "HTTP/1.1 200 OK\r\nServer: x\r\nContent-Type: application/activity+json\r\n\r\n{\"id\":\"https://x/y\",\"k\":[1,2]}"
	redirRaw := "HTTP/1.1 302 Found\r\nServer: x\r\nLocation: https://" + VHostB + "/doc\r\nX-After: 1\r\n\r\nmoved"
	hops := 1 + verifrt.Choice("hops", 2)
	w := NewWorld()
	doc := NewResp(docRaw)
	redir := NewResp(redirRaw)
	start := "https://" + VHostB + "/doc"
	w.Routes[VHostB+"/doc"] = doc
	if hops == 2 {
		w.Routes[VHostA+"/start"] = redir
		start = "https://" + VHostA + "/start"
	}
	// where the fault strikes
	target, raw, host := doc, docRaw, VHostB
	needed := len(docRaw) // bytes of the response that must arrive for the hop to succeed
	if hops == 2 && verifrt.Choice("faulthop", 2) == 0 {
		target, raw, host = redir, redirRaw, VHostA
		needed = strings.Index(redirRaw, "X-After") // the Location line is complete
	}
	kind := verifrt.Choice("fault", fKinds)
	k := 0
	switch kind {
	case fRefuse:
		w.Refuse[host] = true
	case fCut:
		k = verifrt.Int("at", 0, len(raw))
		target.CutAt = k
	case fStall:
		k = verifrt.Int("at", 0, len(raw))
		target.StallAt = k
	case fTrickle:
		target.Trickle = true
	case fNoAnswer:
		target.NoAnswer = true
	case fHandshakeStall:
		// the faulty hop lives on a host that accepts TCP and never speaks
		w.StallHandshake[VHostD] = true
		if host == VHostA {
			start = "https://" + VHostD + "/start"
		} else if hops == 2 {
			redir.Raw = strings.Replace(redirRaw, VHostB, VHostD, 1)
		} else {
			start = "https://" + VHostD + "/doc"
		}
	}
	VerifUseWorld(w, 2)
	timeout := config.Parsed.Network.Timeout
	t0 := VerifNow()
	u, _ := url.Parse(start)
	docGot, src, err := Get(u, c03Accept, c03Tolerated, 3)
	elapsed := VerifNow().Sub(t0)

	verifrt.Assert((err == nil) == (docGot != nil && src != nil), "either-a-document-or-an-error")
	switch kind {
	case fNone:
		verifrt.Assert(err == nil, "no-fault-no-error")
	case fRefuse, fNoAnswer, fTrickle, fHandshakeStall:
		verifrt.Assert(err != nil, "fault-yields-an-error")
	case fCut, fStall:
		// the exchange succeeds exactly if everything it needs arrived before the fault
		verifrt.Assert((err == nil) == (k >= needed), "truncated-response-never-accepted")
	}
	if err == nil {
		id, _ := docGot["id"].(string)
		verifrt.Assert(id == "https://x/y" && len(docGot) == 2, "document-is-complete")
	}
	if verifrt.Symbolic() {
		verifrt.Assert(elapsed <= time.Duration(3*hops)*timeout, "ends-within-a-small-multiple-of-the-timeout-per-hop")
	}
	verifrt.Observe("ok", err == nil)
	verifrt.Reach("end")
}
