//go:build verif

package jtp

import (
	"net/url"
	"servitor/verifrt"
	"strings"
)

var c03Tolerated = []string{"application/activity+json", "application/ld+json", "application/json"}

const c03Accept = "application/activity+json"

type c03Slot struct {
	url     string
	path    string
	host    string
	status  string // three characters (possibly symbolic)
	headers []int  // header kinds
	locs    []int  // Location targets (slot index) per header, -1 if n/a
	body    int
	raw     string
}

const (
	hNone = iota
	hCTGood
	hCTGoodParams
	hCTForeign
	hCTMalformed
	hLocAbs
	hLocRel
	hLocPlainHTTP
	hOther
	hContentLocation // not a Location header
	hKinds
)

const (
	bObject = iota
	bArray
	bScalar
	bMalformed
	bEmpty
	bKinds
)

var c03Bodies = []string{`{"id":"https://x/y","k":1}`, `[1,2]`, `42`, `{"a":`, ``}

// URL styles: 0 = /sN; in the others the first two URLs (same host) differ
// only in a way a lossy normalisation would erase - an escaped slash, the
// query, a trailing slash - while the server keeps them apart.
var c03Styles = [][2]string{{"/s0", "/s1"}, {"/s0%2Fz", "/s0/z"}, {"/s0?v=1", "/s0?v=2"}, {"/s0", "/s0/"}, {"/s0", "/s1?v=1"}}

func c03URL(i int, style int) (string, string, string) {
	host := VHostA
	if i >= 2 {
		host = VHostB
	}
	path := "/s" + string(rune('0'+i))
	if i < 2 {
		path = c03Styles[style][i]
	}
	return "https://" + host + path, host, path
}

// canned behaviours for the secondary URLs
const (
	cGood = iota
	cRedirectNext // absolute Location to the next URL (cyclically)
	cRedirectFirst // relative Location to /s0 on the same host
	cNotFound
	cForeignType
	cKinds
)

func c03Canned(slots []*c03Slot, i int, kind int) {
	s := slots[i]
	n := len(slots)
	switch kind {
	case cGood:
		s.status, s.headers, s.locs, s.body = "200", []int{hCTGood}, []int{-1}, bObject
	case cRedirectNext:
		s.status, s.headers, s.locs, s.body = "302", []int{hOther, hLocAbs}, []int{-1, (i + 1) % n}, bEmpty
	case cRedirectFirst:
		s.status, s.headers, s.locs, s.body = "301", []int{hLocRel}, []int{0}, bEmpty
	case cNotFound:
		s.status, s.headers, s.locs, s.body = "404", nil, nil, bObject
	default:
		s.status, s.headers, s.locs, s.body = "200", []int{hCTForeign}, []int{-1}, bObject
	}
}

// c03World: general=true makes the first URL's response fully general
// (symbolic status digits, 0..2 headers, any body); every other URL shows one
// of the canned behaviours.
func c03World(nslots int, general bool) (*VWorld, []*c03Slot) {
	return c03WorldStyled(nslots, general, 0)
}

func c03WorldStyled(nslots int, general bool, style int) (*VWorld, []*c03Slot) {
	w := NewWorld()
	slots := make([]*c03Slot, nslots)
	for i := range slots {
		s := &c03Slot{}
		s.url, s.host, s.path = c03URL(i, style)
		slots[i] = s
	}
	for i, s := range slots {
		if i == 0 && general {
			d1 := verifrt.Byte("status")
			verifrt.Assume(verifrt.InSet(d1, "1234"))
			d2, d3 := verifrt.Byte("status"), verifrt.Byte("status")
			verifrt.Assume(verifrt.All(d2 >= '0', d2 <= '9', d3 >= '0', d3 <= '9'))
			s.status = string([]byte{d1, d2, d3})
			nh := verifrt.Choice("nheaders", 3)
			for h := 0; h < nh; h++ {
				k := 0
				if h == 0 {
					k = 1 + verifrt.Choice("header", hKinds-1)
				} else {
					k = []int{hCTGood, hCTForeign, hLocAbs, hCTMalformed}[verifrt.Choice("header2", 4)]
				}
				s.headers = append(s.headers, k)
				loc := -1
				if k == hLocAbs || k == hLocRel || k == hLocPlainHTTP {
					loc = verifrt.Choice("target", nslots)
				}
				s.locs = append(s.locs, loc)
			}
			s.body = verifrt.Choice("body", bKinds)
			continue
		}
		c03Canned(slots, i, verifrt.Choice("canned", verifrt.Param("canned", cKinds)))
	}
	for i, s := range slots {
		var sb strings.Builder
		sb.WriteString("HTTP/1.1 " + s.status + " Whatever\r\n")
		for h, k := range s.headers {
			switch k {
			case hCTGood:
				sb.WriteString("Content-Type: application/activity+json\r\n")
			case hCTGoodParams:
				sb.WriteString("content-type:  application/ld+json; profile=\"https://www.w3.org/ns/activitystreams\" \r\n")
			case hCTForeign:
				sb.WriteString("Content-Type: text/html; charset=utf-8\r\n")
			case hCTMalformed:
				sb.WriteString("CONTENT-TYPE: ;;;\r\n")
			case hLocAbs:
				sb.WriteString("Location: " + slots[s.locs[h]].url + "\r\n")
			case hLocRel:
				sb.WriteString("location: " + slots[s.locs[h]].path + "\r\n")
			case hLocPlainHTTP:
				sb.WriteString("Location: http://" + slots[s.locs[h]].host + slots[s.locs[h]].path + "\r\n")
			case hOther:
				sb.WriteString("X-Whatever: content-type: application/json\r\n")
			case hContentLocation:
				sb.WriteString("Content-Location: " + slots[len(slots)-1].url + "\r\nX-Content-Type: text/html\r\n")
			}
		}
		sb.WriteString("\r\n")
		if s.body == bObject {
			// every URL serves its own document
			sb.WriteString(`{"id":"https://x/y","k":` + string(rune('0'+i)) + `}`)
		} else {
			sb.WriteString(c03Bodies[s.body])
		}
		s.raw = sb.String()
		w.Routes[s.host+s.path] = NewResp(s.raw)
	}
	return w, slots
}

// c03Ref: the statement's own reading of an exchange, over descriptors only.
// Returns the slot whose document is returned, or -1 for an error.
func c03Ref(slots []*c03Slot, i int, budget int) int {
	s := slots[i]
	st := s.status
	if st[0] == '3' {
		// first Location header decides
		for h, k := range s.headers {
			switch k {
			case hLocAbs:
				if budget == 0 {
					return -1
				}
				return c03Ref(slots, s.locs[h], budget-1)
			case hLocRel:
				if budget == 0 {
					return -1
				}
				// relative to the URL that issued it: same host
				t := s.locs[h]
				if slots[t].host != s.host {
					// "/sT" on this host is a slot only if T lives on this host
					return -1 // 404 from this host
				}
				return c03Ref(slots, t, budget-1)
			case hLocPlainHTTP:
				return -1
			}
		}
		return -1
	}
	if !(st == "200" || st == "201" || st == "202" || st == "203") {
		return -1
	}
	seen := false
	for _, k := range s.headers {
		switch k {
		case hCTGood, hCTGoodParams:
			seen = true
		case hCTForeign, hCTMalformed:
			return -1
		}
	}
	if !seen || s.body != bObject {
		return -1
	}
	return i
}

func c03Get(slots []*c03Slot, i int, budget int) (ok bool, source string, k int, nreq int) {
	before := len(VerifRequests())
	u, err := url.Parse(slots[i].url)
	verifrt.Assert(err == nil, "slot-url-parses")
	doc, src, gerr := Get(u, c03Accept, c03Tolerated, uint(budget))
	nreq = len(VerifRequests()) - before
	if gerr != nil {
		verifrt.Assert(doc == nil && src == nil, "error-comes-without-document")
		return false, "", -1, nreq
	}
	verifrt.Assert(doc != nil && src != nil, "document-comes-with-source")
	k = -1
	if f, isNum := doc["k"].(float64); isNum {
		k = int(f)
	}
	return true, src.String(), k, nreq
}

func c03Check(slots []*c03Slot, i, budget int) {
	want := c03Ref(slots, i, budget)
	ok, source, k, nreq := c03Get(slots, i, budget)
	verifrt.Assert(ok == (want >= 0), "document-iff-the-exchange-is-acceptable")
	if ok && want >= 0 {
		verifrt.Assert(source == slots[want].url, "source-is-the-final-url")
		verifrt.Assert(k == want, "document-is-the-one-the-final-url-serves")
	}
	verifrt.Assert(nreq <= budget+1, "at-most-one-request-per-allowed-hop")
	verifrt.Observe("ok", ok)
	verifrt.Observe("source", source)
}

func c03CheckRequests() {
	// every request went to the host of the URL it was for, as a single write
	for _, r := range VerifRequests() {
		verifrt.Assert(r.Writes == 1, "one-write-per-connection")
		verifrt.Assert(strings.HasPrefix(r.Raw, "GET /s") && strings.Contains(r.Raw, "\r\nHost: "+r.Host+"\r\n"), "request-names-its-host")
	}
}

// VerifC03Classify: which exchanges yield a document (one fetch, general response).
func VerifC03Classify() {
	nslots := verifrt.Param("slots", 2)
	w, slots := c03World(nslots, true)
	w.Chunk = []int{0, 1, 7}[verifrt.Choice("chunk", verifrt.Param("chunks", 1))]
	VerifUseWorld(w, 2)
	c03Check(slots, 0, verifrt.Int("budget", 0, verifrt.Param("maxbudget", 2)))
	c03CheckRequests()
	verifrt.Reach("end")
}

// VerifC03History: with unchanged servers, every fetch of a sequence gives the
// history-free answer, whatever was fetched before and however small the cache.
func VerifC03History() {
	nslots := verifrt.Param("slots", 3)
	w, slots := c03WorldStyled(nslots, false, verifrt.Choice("urlstyle", len(c03Styles)))
	VerifUseWorld(w, 1+verifrt.Choice("cachesize", 2))
	// the client fetches everything with one fixed redirect budget
	budget := verifrt.Int("budget", 0, verifrt.Param("maxbudget", 2))
	ngets := verifrt.Param("gets", 2)
	for g := 0; g < ngets; g++ {
		i := verifrt.Choice("slot", nslots)
		if g == 0 {
			c03Check(slots, i, budget)
			continue
		}
		// later fetches: a cached redirect target may save hops, so a document
		// may come back where the budget alone would not reach - but it must be
		// the right document, and an error must be one the servers justify
		ok, source, k, nreq := c03Get(slots, i, budget)
		unlimited := c03Ref(slots, i, 2*nslots)
		if ok {
			verifrt.Assert(unlimited >= 0 && source == slots[unlimited].url && k == unlimited, "refetch-returns-the-same-document-and-source")
		} else {
			verifrt.Assert(c03Ref(slots, i, budget) < 0, "refetch-fails-only-if-it-would-fail-on-its-own")
		}
		verifrt.Assert(nreq <= budget+1, "at-most-one-request-per-allowed-hop")
		verifrt.Observe("ok", ok)
		verifrt.Observe("source", source)
	}
	c03CheckRequests()
	verifrt.Reach("end")
}
