//go:build verif

package config

// VerifConfigInit stands in for config.init#1 under the engine: the real
// parse and postprocess run on the built-in defaults, no file is read.
// (The native replay runs the real init with HOME pointing at an empty
// directory, which takes the same path.)
func VerifConfigInit() {
	var err error
	if Parsed, err = parse(""); err != nil {
		panic(err)
	}
	if err = postprocess(Parsed); err != nil {
		panic(err)
	}
}
