//go:build verif

package config

import "servitor/verifrt"

func hexVal(b byte) int {
	return verifrt.IteInt(b >= '0' && b <= '9', int(b-'0'),
		verifrt.IteInt(b >= 'a' && b <= 'f', int(b-'a')+10, int(b-'A')+10))
}

func isHex(b byte) bool {
	return verifrt.InSet(b, "0123456789abcdefABCDEF")
}

// VerifPostprocess exposes the unexported validator to harnesses in other packages.
func VerifPostprocess(c *Config) error { return postprocess(c) }

// VerifC19HexToAnsi: every string of up to `bytes` bytes, each byte symbolic.
func VerifC19HexToAnsi() {
	n := verifrt.Choice("len", verifrt.Param("bytes", 8)+1)
	text := verifrt.Bytes("c", n)
	out, err := hexToAnsi(text)

	wellFormed := n == 7 && text[0] == '#' &&
		verifrt.All(isHex(text[1]), isHex(text[2]), isHex(text[3]), isHex(text[4]), isHex(text[5]), isHex(text[6]))
	verifrt.Assert((err == nil) == wellFormed, "colour-accepted-iff-hash-and-six-hex-digits")
	if err != nil {
		verifrt.Assert(out == "", "colour-rejected-yields-nothing")
		verifrt.Reach("end")
		return
	}
	// the output is three decimal numbers 0..255 equal to the hex pairs
	want := [3]int{hexVal(text[1])*16 + hexVal(text[2]), hexVal(text[3])*16 + hexVal(text[4]), hexVal(text[5])*16 + hexVal(text[6])}
	comp, val, digits := 0, 0, 0
	ok := true
	for i := 0; i <= len(out); i++ {
		if i == len(out) || out[i] == ';' {
			ok = verifrt.All(ok, comp < 3, digits >= 1, digits <= 3)
			if comp < 3 {
				ok = verifrt.All(ok, val == want[comp], val >= 0, val <= 255)
			}
			comp++
			val, digits = 0, 0
			continue
		}
		ok = verifrt.All(ok, out[i] >= '0', out[i] <= '9')
		val = val*10 + int(out[i]-'0')
		digits++
	}
	verifrt.Assert(ok && comp == 3, "colour-code-is-three-components-0-255-matching-hex")
	verifrt.Observe("ansi", out)
	verifrt.Reach("end")
}
