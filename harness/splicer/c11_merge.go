//go:build verif

package splicer

import (
	"servitor/mime"
	"servitor/pub"
	"servitor/verifrt"
	"time"
)

type vItem struct {
	src, idx int
	ts       time.Time
}

func (v *vItem) String(width int) string                              { return "" }
func (v *vItem) Preview(width int) string                             { return "" }
func (v *vItem) Parents(uint) ([]pub.Tangible, pub.Tangible)          { return nil, nil }
func (v *vItem) Children() pub.Container                              { return nil }
func (v *vItem) Timestamp() time.Time                                 { return v.ts }
func (v *vItem) Name() string                                         { return "" }
func (v *vItem) SelectLink(input int) (string, *mime.MediaType, bool) { return "", nil, false }

// vSource: a well-behaved Container (it honours the paging contract of C10:
// fewer items than asked only together with an empty continuation).
type vSource struct {
	items []pub.Tangible
}

func (s *vSource) Harvest(quantity uint, startingAt uint) ([]pub.Tangible, pub.Container, uint) {
	n := uint(len(s.items))
	if startingAt >= n {
		return []pub.Tangible{}, nil, 0
	}
	end := startingAt + quantity
	if end >= n {
		return append([]pub.Tangible{}, s.items[startingAt:]...), nil, 0
	}
	return append([]pub.Tangible{}, s.items[startingAt:end]...), s, end
}

func c11Sources() (Splicer, [][]*vItem) {
	K := 1 + verifrt.Choice("sources", verifrt.Param("sources", 2))
	maxItems := verifrt.Param("items", 2)
	s := make(Splicer, K)
	all := make([][]*vItem, K)
	for i := 0; i < K; i++ {
		n := verifrt.Choice("count", maxItems+1)
		var items []pub.Tangible
		for j := 0; j < n; j++ {
			it := &vItem{src: i, idx: j}
			if verifrt.Choice("dated", 2) == 1 {
				it.ts = time.Unix(int64(verifrt.Int("sec", 0, 1<<40)), int64(verifrt.Int("nsec", 0, 999999999)))
			}
			items = append(items, it)
			all[i] = append(all[i], it)
		}
		s[i].elements = []pub.Tangible{}
		if n > 0 || verifrt.Choice("nilpage", 2) == 0 {
			s[i].page = &vSource{items: items}
		}
	}
	return s, all
}

// after reports whether a is strictly later than b (timestamps as the items report them).
func after(a, b *vItem) bool { return a.ts.After(b.ts) }

func safeHarvest(c pub.Container, q uint) (items []pub.Tangible, next pub.Container, panicked bool) {
	defer func() {
		if recover() != nil {
			panicked = true
		}
	}()
	items, next, _ = c.Harvest(q, 0)
	return
}

// VerifC11Merge: paging through a feed is the newest-first merge of its sources.
func VerifC11Merge() {
	s, all := c11Sources()
	K := len(all)
	total := 0
	for _, a := range all {
		total += len(a)
	}
	heads := make([]int, K) // reference: next undelivered index per source
	var cont pub.Container = s
	nreq := 1 + verifrt.Choice("requests", verifrt.Param("requests", 2))
	delivered := 0
	var first []pub.Tangible
	for r := 0; r < nreq && cont != nil; r++ {
		q := uint(verifrt.Int("q", 0, verifrt.Param("maxq", 3)))
		items, next, panicked := safeHarvest(cont, q)
		verifrt.Assert(!panicked, "continuation-is-usable-or-empty")
		if panicked {
			return
		}
		{
			// asking the same feed position twice gives the same answer
			again, _, p2 := safeHarvest(cont, q)
			same := !p2 && len(again) == len(items)
			for i := 0; same && i < len(items); i++ {
				same = again[i] == items[i]
			}
			verifrt.Assert(same, "same-position-same-answer")
			first = items
		}
		for _, it := range items {
			v, ok := it.(*vItem)
			verifrt.Assert(ok, "items-come-from-the-sources")
			if !ok {
				return
			}
			// per-source order, each item once
			verifrt.Assert(heads[v.src] == v.idx, "each-source-in-order-exactly-once")
			// it is a maximum among the current heads; ties go to the first source
			best := true
			for j := 0; j < K; j++ {
				if j == v.src || heads[j] >= len(all[j]) {
					continue
				}
				h := all[j][heads[j]]
				if j < v.src {
					best = best && after(v, h)
				} else {
					best = best && !after(h, v)
				}
			}
			verifrt.Assert(best, "newest-head-first-ties-to-first-source")
			heads[v.src]++
			delivered++
		}
		if uint(len(items)) < q {
			verifrt.Assert(delivered == total, "short-answer-only-when-all-sources-are-exhausted")
			verifrt.Assert(next == nil, "feed-simply-ends")
		}
		cont = next
	}
	_ = first
	verifrt.Observe("delivered", delivered)
	verifrt.Reach("end")
}
