//go:build verif

package gemtext

import (
	"servitor/verifrt"
	"strings"
)

func vGemPayload(n int) string {
	s := ""
	for i := 0; i < n; i++ {
		b := verifrt.Byte("t")
		verifrt.Assume(verifrt.All(b < 0x7f, b >= 0x20))
		s += string(rune(b))
	}
	return s
}

var gemPrefixes = []string{"", "=> https://a/b ", "=> ", "# ", "## ", "### ", "* ", "> ", ">", "```"}

func VerifC15GemtextWidth() {
	nl := 1 + verifrt.Choice("lines", verifrt.Param("lines", 2))
	var lines []string
	for i := 0; i < nl; i++ {
		p := gemPrefixes[verifrt.Choice("prefix", len(gemPrefixes))]
		lines = append(lines, p+vGemPayload(verifrt.Choice("len", verifrt.Param("chars", 3)+1)))
	}
	width := verifrt.Int("width", 1, verifrt.Param("maxw", 8))
	m, _, err := NewMarkup(strings.Join(lines, "\n"))
	verifrt.Assert(err == nil && m != nil, "markup-built")
	out := m.Render(width)
	sc := verifrt.Parse(out)
	verifrt.Assert(sc.OK, "render-well-formed")
	fits := true
	for _, l := range sc.Lines {
		fits = verifrt.All(fits, len(l) <= width)
	}
	verifrt.Assert(fits, "render-lines-within-width")
	verifrt.Assert(sc.NeutralAtBreaks(), "render-neutral-at-line-ends")
	verifrt.Observe("out", out)
	verifrt.Reach("end")
}

// VerifC15GemtextCacheReal: "the same text regardless of the widths it was
// rendered at before", on the real renderer through the public interface: a
// markup with a rendering history against a freshly built one.
func VerifC15GemtextCacheReal() {
	text := []string{"\n# title\nsome longer text here", "=> gemini://a/b link text\n\n", "> quote\n* item\n```\npre\n```"}[verifrt.Choice("doc", 3)]
	maxw := verifrt.Param("maxw", 12)
	m, _, err := NewMarkup(text)
	verifrt.Assert(err == nil && m != nil, "markup-built")
	_ = m.Render(verifrt.Int("cachedWidth", 1, maxw))
	for i := 0; i < verifrt.Param("calls", 2); i++ {
		w := verifrt.Int("w", 1, maxw)
		got := m.Render(w)
		fresh, _, _ := NewMarkup(text)
		verifrt.Assert(got == fresh.Render(w), "render-equals-cache-free-rendering")
	}
	verifrt.Reach("end")
}
