//go:build verif

package gemtext

import (
	"servitor/verifrt"
	"strings"
)

func vGemPayload(n int) string {
	s := ""
	for i := 0; i < n; i++ {
		b := verifrt.Byte("t")
		verifrt.Assume(verifrt.All(b < 0x7f, b >= 0x20))
		s += string(rune(b))
	}
	return s
}

var gemPrefixes = []string{"", "=> https://a/b ", "=> ", "# ", "## ", "### ", "* ", "> ", ">", "```"}

func VerifC15GemtextWidth() {
	nl := 1 + verifrt.Choice("lines", verifrt.Param("lines", 2))
	var lines []string
	for i := 0; i < nl; i++ {
		p := gemPrefixes[verifrt.Choice("prefix", len(gemPrefixes))]
		lines = append(lines, p+vGemPayload(verifrt.Choice("len", verifrt.Param("chars", 3)+1)))
	}
	width := verifrt.Int("width", 1, verifrt.Param("maxw", 8))
	out, _ := renderWithLinks(lines, width)
	sc := verifrt.Parse(out)
	verifrt.Assert(sc.OK, "render-well-formed")
	fits := true
	for _, l := range sc.Lines {
		fits = verifrt.All(fits, len(l) <= width)
	}
	verifrt.Assert(fits, "render-lines-within-width")
	verifrt.Assert(sc.NeutralAtBreaks(), "render-neutral-at-line-ends")
	verifrt.Observe("out", out)
	verifrt.Reach("end")
}

func encWidth(w int) string {
	return string([]byte{byte(w), byte(w >> 8), byte(w >> 16), byte(w >> 24), byte(w >> 32), byte(w >> 40), byte(w >> 48), byte(w >> 56)})
}

func VerifStubRender(lines []string, width int) (string, []string) { return encWidth(width), []string{} }

func VerifC15GemtextCache() {
	text := "# title\nsome text\n=> https://a/b link"
	lines := strings.Split(text, "\n")
	cw := int(verifrt.Int64("cachedWidth"))
	pre, _ := renderWithLinks(lines, cw)
	m := &Markup{tree: lines, cached: pre, cachedWidth: cw}
	for i := 0; i < verifrt.Param("calls", 3); i++ {
		w := int(verifrt.Int64("w"))
		got := m.Render(w)
		ref, _ := renderWithLinks(lines, w)
		verifrt.Assert(got == ref, "render-equals-cache-free-rendering")
		verifrt.Assert(m.cachedWidth == w && m.cached == ref, "cache-invariant-reestablished")
	}
	m2, _, err := NewMarkup(text)
	ref80, _ := renderWithLinks(lines, 80)
	verifrt.Assert(err == nil && m2.cachedWidth == 80 && m2.cached == ref80, "constructor-establishes-cache-invariant")
	verifrt.Reach("end")
}

// VerifC15GemtextCacheReal: the cache lemma on the real renderer.
func VerifC15GemtextCacheReal() {
	text := []string{"\n# title\nsome longer text here", "=> gemini://a/b link text\n\n", "> quote\n* item\n```\npre\n```"}[verifrt.Choice("doc", 3)]
	lines := strings.Split(text, "\n")
	maxw := verifrt.Param("maxw", 12)
	cw := verifrt.Int("cachedWidth", 1, maxw)
	pre, _ := renderWithLinks(lines, cw)
	m := &Markup{tree: lines, cached: pre, cachedWidth: cw}
	for i := 0; i < verifrt.Param("calls", 2); i++ {
		w := verifrt.Int("w", 1, maxw)
		got := m.Render(w)
		ref, _ := renderWithLinks(lines, w)
		verifrt.Assert(got == ref, "render-equals-cache-free-rendering")
	}
	verifrt.Reach("end")
}
