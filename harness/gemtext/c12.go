//go:build verif

package gemtext

import (
	"servitor/verifrt"
	"strings"
)

const superscriptsGem = "⁰¹²³⁴⁵⁶⁷⁸⁹"

func superDigitGem(r rune) int {
	i := 0
	for _, s := range superscriptsGem {
		if s == r {
			return i
		}
		i++
	}
	return -1
}

// VerifC12Gemtext: link lines are numbered 1..N in order and the number next
// to a label opens that label's target.
func VerifC12Gemtext() {
	n := verifrt.Choice("lines", verifrt.Param("lines", 3)+1)
	var lines []string
	var targets []string
	var labels []byte
	for i := 0; i < n; i++ {
		l := byte('A' + i)
		switch verifrt.Choice("kind", 8) {
		case 0:
			lines = append(lines, "plain text line")
		case 1: // link with a label
			t := "gemini://host/" + string(l)
			lines = append(lines, "=> "+t+" label "+string(l))
			targets, labels = append(targets, t), append(labels, l)
		case 2: // link without label: the URL is shown
			t := "gemini://host/x" + string(l)
			lines = append(lines, "=>"+t)
			targets, labels = append(targets, t), append(labels, l)
		case 7: // a link line without a URL still is a link line (to nowhere)
			lines = append(lines, "=>")
			targets, labels = append(targets, ""), append(labels, 0)
		case 3:
			lines = append(lines, "# heading")
		case 4:
			lines = append(lines, "```", "=> gemini://not/a/link inside preformatted text", "```")
		case 5:
			lines = append(lines, "> quoted")
		default:
			lines = append(lines, "* item")
		}
	}
	width := verifrt.Int("width", 1, verifrt.Param("maxw", 30))
	// through the public interface: the link list the constructor reports and
	// the text Render shows
	m, links, err := NewMarkup(strings.Join(lines, "\n"))
	verifrt.Assert(err == nil && m != nil, "markup-built")
	out := m.Render(width)
	sc := verifrt.Parse(out)
	verifrt.Assert(sc.OK && sc.NeutralAtBreaks(), "render-well-formed-and-neutral")
	verifrt.Assert(len(links) == len(targets), "one-link-entry-per-link-line")
	// numbers shown, with the last label letter seen before each
	var nums []int
	var seenLabels []byte
	last := byte(0)
	cur, in := 0, false
	flush := func() {
		if in {
			nums, seenLabels = append(nums, cur), append(seenLabels, last)
			cur, in = 0, false
		}
	}
	for _, line := range sc.Lines {
		for _, c := range line {
			if d := superDigitGem(c.R); d >= 0 {
				cur, in = cur*10+d, true
				continue
			}
			flush()
			if c.R >= 'A' && c.R <= 'Z' {
				last = byte(c.R)
			}
		}
		flush()
	}
	ok := len(nums) == len(targets)
	for i, k := range nums {
		ok = ok && k == i+1
		if k >= 1 && k <= len(links) && i < len(labels) {
			ok = ok && links[k-1] == targets[i] && (labels[i] == 0 || seenLabels[i] == labels[i] || strings.Contains(targets[i], "/x"))
		}
	}
	verifrt.Assert(ok, "numbers-1..N-in-order-and-open-their-targets")
	verifrt.Observe("out", out)
	verifrt.Reach("end")
}
