//go:build verif

package markdown

import (
	"servitor/verifrt"
)

var mdDocs = []string{
	"plain paragraph with some words in it",
	"# Title\n\nText with *emphasis*, **strong**, `code` and ~~strike~~.",
	"see [the site](https://a.example/x) and ![a picture](https://a.example/p.png \"t\")",
	"[![linked image](https://a.example/i.png)](https://a.example/target)",
	"> quoted text\n> over two lines\n\n- item one\n- item two\n  - nested item",
	"```\ncode block with a long line that does not fit\n```\n\n---\n\nafter the rule",
	"entities: &#27;[2J &#155;31m &#x9d;0;title&#7; &amp; &lt;b&gt;",
	"<div onclick=\"x\">raw <b>html</b></div> <script>alert(1)</script>",
	"| a | b |\n|---|---|\n| 1 | 2 |\n\nhttps://auto.example/link",
}

const mdSuper = "⁰¹²³⁴⁵⁶⁷⁸⁹"

func mdDigit(r rune) int {
	i := 0
	for _, s := range mdSuper {
		if s == r {
			return i
		}
		i++
	}
	return -1
}

// VerifC15Markdown: Markdown documents (through goldmark, natively, then the
// HTML renderer) at a symbolic width: width, cleanliness, neutrality, and
// numbers 1..N for the N links found.
func VerifC15Markdown() {
	doc := mdDocs[verifrt.Choice("doc", len(mdDocs))]
	m, links, err := NewMarkup(doc)
	verifrt.Assert(err == nil && m != nil, "markdown-parses")
	width := verifrt.Int("width", 1, verifrt.Param("maxw", 30))
	out := m.Render(width)
	sc := verifrt.Parse(out)
	verifrt.Assert(sc.OK && verifrt.CleanOutput(out), "markdown-output-clean")
	verifrt.Assert(sc.NeutralAtBreaks(), "markdown-output-neutral-at-line-ends")
	fits := true
	for _, l := range sc.Lines {
		fits = fits && len(l) <= width
	}
	verifrt.Assert(fits, "markdown-lines-within-width")
	// numbers shown: 1..N once each
	seen := make([]int, len(links)+2)
	ok := true
	cur, in := 0, false
	flush := func() {
		if in {
			if cur >= 1 && cur <= len(links) {
				seen[cur]++
			} else {
				ok = false
			}
			cur, in = 0, false
		}
	}
	for _, line := range sc.Lines {
		for _, c := range line {
			if d := mdDigit(c.R); d >= 0 {
				cur, in = cur*10+d, true
			} else {
				flush()
			}
		}
		flush()
	}
	for k := 1; k <= len(links); k++ {
		ok = ok && seen[k] == 1
	}
	verifrt.Assert(ok, "markdown-link-numbers-1..N-once-each")
	// rendering again at the same width gives the same text
	verifrt.Assert(m.Render(width) == out, "markdown-render-repeatable")
	verifrt.Observe("out", out)
	verifrt.Reach("end")
}
