//go:build verif

package plaintext

// White-box lemma about the cache fields and the internal renderer (replaced
// by a stub that encodes the width): every int64 width. Left out, and the
// harness skipped with a notice, when those internals are renamed.

import "servitor/verifrt"

func encWidth(w int) string {
	return string([]byte{byte(w), byte(w >> 8), byte(w >> 16), byte(w >> 24), byte(w >> 32), byte(w >> 40), byte(w >> 48), byte(w >> 56)})
}

func VerifStubRender(text string, width int) (string, []string) { return encWidth(width), []string{} }

func VerifC15PlaintextCache() {
	text := "plain text with https://a.b/c inside"
	cw := int(verifrt.Int64("cachedWidth"))
	pre, _ := renderWithLinks(text, cw)
	m := &Markup{text: text, cached: pre, cachedWidth: cw}
	for i := 0; i < verifrt.Param("calls", 3); i++ {
		w := int(verifrt.Int64("w"))
		got := m.Render(w)
		ref, _ := renderWithLinks(text, w)
		verifrt.Assert(got == ref, "render-equals-cache-free-rendering")
		verifrt.Assert(m.cachedWidth == w && m.cached == ref, "cache-invariant-reestablished")
	}
	m2, _, err := NewMarkup(text)
	ref80, _ := renderWithLinks(text, 80)
	verifrt.Assert(err == nil && m2.cachedWidth == 80 && m2.cached == ref80, "constructor-establishes-cache-invariant")
	verifrt.Reach("end")
}

