//go:build verif

package plaintext

import "servitor/verifrt"

const superscriptsPlain = "⁰¹²³⁴⁵⁶⁷⁸⁹"

func superDigitPlain(r rune) int {
	i := 0
	for _, s := range superscriptsPlain {
		if s == r {
			return i
		}
		i++
	}
	return -1
}

// VerifC12Plaintext: URLs found in plain text are numbered 1..N in order of
// appearance and the k-th number opens the k-th URL.
func VerifC12Plaintext() {
	n := verifrt.Choice("urls", verifrt.Param("urls", 3)+1)
	text := "see"
	var targets []string
	for i := 0; i < n; i++ {
		t := []string{"https://a.b/c", "gemini://h/x?y=1", "x+y://[::1]:80/p"}[verifrt.Choice("url", 3)] + string(rune('A'+i))
		sep := []string{" ", "\n", " and then "}[verifrt.Choice("sep", 3)]
		text += sep + t
		targets = append(targets, t)
	}
	text += " end"
	width := verifrt.Int("width", 1, verifrt.Param("maxw", 30))
	m, links, err := NewMarkup(text)
	verifrt.Assert(err == nil && m != nil, "markup-built")
	out := m.Render(width)
	sc := verifrt.Parse(out)
	verifrt.Assert(sc.OK && sc.NeutralAtBreaks(), "render-well-formed-and-neutral")
	verifrt.Assert(len(links) == n, "one-link-entry-per-url")
	var nums []int
	cur, in := 0, false
	for _, line := range sc.Lines {
		for _, c := range line {
			if d := superDigitPlain(c.R); d >= 0 {
				cur, in = cur*10+d, true
				continue
			}
			if in {
				nums = append(nums, cur)
				cur, in = 0, false
			}
		}
		if in {
			nums = append(nums, cur)
			cur, in = 0, false
		}
	}
	ok := len(nums) == n
	for i, k := range nums {
		ok = ok && k == i+1 && i < len(links) && links[i] == targets[i]
	}
	verifrt.Assert(ok, "numbers-1..N-in-order-and-open-their-targets")
	verifrt.Observe("out", out)
	verifrt.Reach("end")
}
