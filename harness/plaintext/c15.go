//go:build verif

package plaintext

import "servitor/verifrt"

func vPlainText(n int) string {
	s := ""
	for i := 0; i < n; i++ {
		b := verifrt.Byte("t")
		verifrt.Assume(verifrt.All(b < 0x7f, verifrt.Any(b >= 0x20, b == '\n')))
		s += string(rune(b))
	}
	return s
}

func VerifC15PlaintextWidth() {
	n := verifrt.Choice("len", verifrt.Param("chars", 4)+1)
	text := vPlainText(n)
	switch verifrt.Choice("withurl", 3) {
	case 1:
		text = "see https://a.b/c " + text
	case 2:
		text = "a://b" + text
	}
	width := verifrt.Int("width", 1, verifrt.Param("maxw", 8))
	m, _, err := NewMarkup(text)
	verifrt.Assert(err == nil && m != nil, "markup-built")
	out := m.Render(width)
	sc := verifrt.Parse(out)
	verifrt.Assert(sc.OK, "render-well-formed")
	fits := true
	for _, l := range sc.Lines {
		fits = verifrt.All(fits, len(l) <= width)
	}
	verifrt.Assert(fits, "render-lines-within-width")
	verifrt.Assert(sc.NeutralAtBreaks(), "render-neutral-at-line-ends")
	verifrt.Observe("out", out)
	verifrt.Reach("end")
}

// VerifC15PlaintextCacheReal: "the same text regardless of the widths it was
// rendered at before", on the real renderer through the public interface,
// for documents with blank edge lines, over a small domain of symbolic widths.
func VerifC15PlaintextCacheReal() {
	text := []string{"\nalpha beta gamma", "alpha beta\n\n", "\n\nsee https://a.b/c now\n", "one two"}[verifrt.Choice("doc", 4)]
	maxw := verifrt.Param("maxw", 12)
	m, _, err := NewMarkup(text)
	verifrt.Assert(err == nil && m != nil, "markup-built")
	_ = m.Render(verifrt.Int("cachedWidth", 1, maxw))
	for i := 0; i < verifrt.Param("calls", 2); i++ {
		w := verifrt.Int("w", 1, maxw)
		got := m.Render(w)
		fresh, _, _ := NewMarkup(text)
		verifrt.Assert(got == fresh.Render(w), "render-equals-cache-free-rendering")
	}
	verifrt.Reach("end")
}
