//go:build verif

package plaintext

import "servitor/verifrt"

func vPlainText(n int) string {
	s := ""
	for i := 0; i < n; i++ {
		b := verifrt.Byte("t")
		verifrt.Assume(verifrt.All(b < 0x7f, verifrt.Any(b >= 0x20, b == '\n')))
		s += string(rune(b))
	}
	return s
}

func VerifC15PlaintextWidth() {
	n := verifrt.Choice("len", verifrt.Param("chars", 4)+1)
	text := vPlainText(n)
	switch verifrt.Choice("withurl", 3) {
	case 1:
		text = "see https://a.b/c " + text
	case 2:
		text = "a://b" + text
	}
	width := verifrt.Int("width", 1, verifrt.Param("maxw", 8))
	out, _ := renderWithLinks(text, width)
	sc := verifrt.Parse(out)
	verifrt.Assert(sc.OK, "render-well-formed")
	fits := true
	for _, l := range sc.Lines {
		fits = verifrt.All(fits, len(l) <= width)
	}
	verifrt.Assert(fits, "render-lines-within-width")
	verifrt.Assert(sc.NeutralAtBreaks(), "render-neutral-at-line-ends")
	verifrt.Observe("out", out)
	verifrt.Reach("end")
}

func encWidth(w int) string {
	return string([]byte{byte(w), byte(w >> 8), byte(w >> 16), byte(w >> 24), byte(w >> 32), byte(w >> 40), byte(w >> 48), byte(w >> 56)})
}

func VerifStubRender(text string, width int) (string, []string) { return encWidth(width), []string{} }

func VerifC15PlaintextCache() {
	text := "plain text with https://a.b/c inside"
	cw := int(verifrt.Int64("cachedWidth"))
	pre, _ := renderWithLinks(text, cw)
	m := &Markup{text: text, cached: pre, cachedWidth: cw}
	for i := 0; i < verifrt.Param("calls", 3); i++ {
		w := int(verifrt.Int64("w"))
		got := m.Render(w)
		ref, _ := renderWithLinks(text, w)
		verifrt.Assert(got == ref, "render-equals-cache-free-rendering")
		verifrt.Assert(m.cachedWidth == w && m.cached == ref, "cache-invariant-reestablished")
	}
	m2, _, err := NewMarkup(text)
	ref80, _ := renderWithLinks(text, 80)
	verifrt.Assert(err == nil && m2.cachedWidth == 80 && m2.cached == ref80, "constructor-establishes-cache-invariant")
	verifrt.Reach("end")
}

// VerifC15PlaintextCacheReal: the same lemma on the real renderer (no stub),
// for documents with blank edge lines, over a small domain of symbolic widths.
func VerifC15PlaintextCacheReal() {
	text := []string{"\nalpha beta gamma", "alpha beta\n\n", "\n\nsee https://a.b/c now\n", "one two"}[verifrt.Choice("doc", 4)]
	maxw := verifrt.Param("maxw", 12)
	cw := verifrt.Int("cachedWidth", 1, maxw)
	pre, _ := renderWithLinks(text, cw)
	m := &Markup{text: text, cached: pre, cachedWidth: cw}
	for i := 0; i < verifrt.Param("calls", 2); i++ {
		w := verifrt.Int("w", 1, maxw)
		got := m.Render(w)
		ref, _ := renderWithLinks(text, w)
		verifrt.Assert(got == ref, "render-equals-cache-free-rendering")
	}
	verifrt.Reach("end")
}
