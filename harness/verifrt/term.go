//go:build verif

package verifrt

import (
	"unicode"
	"unicode/utf8"
)

// Terminal model: an independent scanner (it shares no code with expand).
// ESC [ params m adds params to the active set; "0" clears it.

type Cell struct {
	R     rune
	Attrs string // active parameters, in order of activation, '|' separated
}

type Screen struct {
	Lines     [][]Cell
	NLActive  []string // active set at each '\n'
	EndActive string   // active set at end of text
	OK        bool     // well-formed
}

func Parse(s string) *Screen {
	sc := &Screen{OK: true}
	cur := []Cell{}
	active := ""
	for i := 0; i < len(s); {
		if s[i] == 0x1b {
			if i+1 >= len(s) || s[i+1] != '[' {
				sc.OK = false
				break
			}
			j := i + 2
			for j < len(s) && s[j] != 'm' {
				j++
			}
			if j >= len(s) {
				sc.OK = false
				break
			}
			p := s[i+2 : j]
			if p == "0" {
				active = ""
			} else if active == "" {
				active = p
			} else {
				active += "|" + p
			}
			i = j + 1
			continue
		}
		r, size := utf8.DecodeRuneInString(s[i:])
		i += size
		if r == '\n' {
			sc.Lines = append(sc.Lines, cur)
			sc.NLActive = append(sc.NLActive, active)
			cur = []Cell{}
			continue
		}
		cur = append(cur, Cell{r, active})
	}
	sc.Lines = append(sc.Lines, cur)
	sc.EndActive = active
	return sc
}

func (sc *Screen) NeutralAtBreaks() bool {
	for _, a := range sc.NLActive {
		if a != "" {
			return false
		}
	}
	return sc.EndActive == ""
}

// flat returns the cells with line indices.
type Pos struct {
	C    Cell
	Line int
	Col  int
}

func (sc *Screen) Flat() []Pos {
	var out []Pos
	for li, l := range sc.Lines {
		for ci, c := range l {
			out = append(out, Pos{c, li, ci})
		}
	}
	return out
}

func SameCell(a, b Cell) bool { return All(a.R == b.R, a.Attrs == b.Attrs) }

func Visible(ps []Pos) []Pos {
	var out []Pos
	for _, p := range ps {
		if !unicode.IsSpace(p.C.R) {
			out = append(out, p)
		}
	}
	return out
}


// CleanOutput: after removing every ESC [ (digit|;)* m, the text contains no
// C0 control other than newline, no DEL and no C1 control. (A lone ESC, or one
// followed by anything other than a well-formed SGR sequence, is unclean.)
func CleanOutput(s string) bool {
	for i := 0; i < len(s); {
		if s[i] == 0x1b {
			if i+1 >= len(s) || s[i+1] != '[' {
				return false
			}
			j := i + 2
			for j < len(s) && (s[j] == ';' || (s[j] >= '0' && s[j] <= '9')) {
				j++
			}
			if j >= len(s) || s[j] != 'm' {
				return false
			}
			i = j + 1
			continue
		}
		r, size := utf8.DecodeRuneInString(s[i:])
		i += size
		if !All(Any(r >= 0x20, r == '\n'), Any(r < 0x7f, r > 0x9f)) {
			return false
		}
	}
	return true
}

// AnyText: n arbitrary Unicode scalars (controls included) except NUL.
func AnyText(name string, n int) string {
	s := ""
	for i := 0; i < n; i++ {
		r := Rune(name)
		Assume(r != 0)
		s += string(r)
	}
	return s
}
