//go:build verif

// Package verifrt is the harness API. Under the gosym engine every function
// here is an intrinsic (inputs become SMT variables, Assert becomes a solver
// query); compiled natively the same functions read the values of one solver
// model, so a harness function doubles as its own replay test.
package verifrt

import (
	"bufio"
	"encoding/json"
	"fmt"
	"math"
	"os"
	"os/exec"
	"strconv"
	"strings"
	"testing"
	"time"
)

type model struct {
	ID      int               `json:"id"`
	Harness string            `json:"harness"`
	Vars    map[string]uint64 `json:"vars"`
	Params  map[string]int    `json:"params"`
	Lists   map[string][]string `json:"lists"`
	Timeout int               `json:"timeout_ms"`
}

type result struct {
	ID      int      `json:"id"`
	Outcome string   `json:"outcome"` // ok | assert | panic | assume | timeout | missing
	Label   string   `json:"label,omitempty"`
	Msg     string   `json:"msg,omitempty"`
	Obs     []string `json:"obs"`
}

type state struct {
	m       *model
	count   map[string]int
	obs     []string
	missing []string
}

var cur *state

type assertFail struct{ label string }
type assumeFail struct{}

func next(name string) uint64 {
	k := fmt.Sprintf("%s#%d", name, cur.count[name])
	cur.count[name]++
	v, ok := cur.m.Vars[k]
	if !ok {
		cur.missing = append(cur.missing, k)
	}
	return v
}

func Byte(name string) byte { return byte(next(name)) }
func Rune(name string) rune { return rune(uint32(next(name))) }
func Int(name string, lo, hi int) int {
	if lo == hi {
		cur.count[name]++
		return lo
	}
	v := int(int64(next(name)))
	if v < lo || v > hi {
		panic(assumeFail{})
	}
	return v
}
func Int64(name string) int64     { return int64(next(name)) }
func Uint64(name string) uint64   { return next(name) }
func Float64(name string) float64 { return math.Float64frombits(next(name)) }
func Bool(name string) bool       { return next(name) != 0 }
func Choice(name string, n int) int {
	if n <= 1 {
		cur.count[name]++
		return 0
	}
	v := next(name)
	if v >= uint64(n) {
		panic(assumeFail{})
	}
	return int(v)
}
func Bytes(name string, n int) string {
	b := make([]byte, n)
	for i := range b {
		b[i] = byte(next(name))
	}
	return string(b)
}
func Assume(c bool) {
	if !c {
		panic(assumeFail{})
	}
}
func Assert(c bool, label string) {
	if !c {
		panic(assertFail{label})
	}
}
func Reach(label string)  {}

// ExploreSchedules switches schedule exploration on or off (engine only);
// while off, goroutines run first-in first-out at blocking points.
func ExploreSchedules(on bool) {}

// Hang marks a point that blocks forever (engine: a "hang" violation).
func Hang(label string) { select {} }
func Concrete(x int) int  { return x }
func Symbolic() bool      { return false }
func Param(name string, def int) int {
	if cur != nil && cur.m.Params != nil {
		if v, ok := cur.m.Params[name]; ok {
			return v
		}
	}
	return def
}

// Strings returns a list that the engine computed from the current source
// before the harness ran (a discovery pass, see the sidecar's "discover");
// natively it is read back from the model.
func Strings(name string) []string {
	if cur != nil && cur.m.Lists != nil {
		return append([]string{}, cur.m.Lists[name]...)
	}
	return nil
}

// TraceKeys makes the engine record every constant string key looked up in m
// and in the maps nested in it from now on (discovery passes). Natively a no-op.
func TraceKeys(m map[string]any) {}

// All / Any / InSet / IteInt: branch-free combinators (single SMT terms under
// the engine, plain evaluation natively).
func All(cs ...bool) bool {
	for _, c := range cs {
		if !c {
			return false
		}
	}
	return true
}
func Any(cs ...bool) bool {
	for _, c := range cs {
		if c {
			return true
		}
	}
	return false
}
func InSet(b byte, set string) bool { return strings.IndexByte(set, b) >= 0 }
func IteInt(c bool, a, b int) int {
	if c {
		return a
	}
	return b
}

// SettleHook lets a package say how to wait for its background goroutines.
var SettleHook func()

func Settle() {
	if SettleHook != nil {
		SettleHook()
		return
	}
	time.Sleep(20 * time.Millisecond)
}

func Observe(name string, v any) {
	cur.obs = append(cur.obs, name+"="+format(v))
}

func format(v any) string {
	switch x := v.(type) {
	case nil:
		return "nil"
	case string:
		return strconv.Quote(x)
	case bool:
		return strconv.FormatBool(x)
	case int:
		return strconv.FormatInt(int64(x), 10)
	case int64:
		return strconv.FormatInt(x, 10)
	case int32:
		return strconv.FormatInt(int64(x), 10)
	case uint:
		return strconv.FormatUint(uint64(x), 10)
	case uint64:
		return strconv.FormatUint(x, 10)
	case uint8:
		return strconv.FormatUint(uint64(x), 10)
	case []string:
		parts := make([]string, len(x))
		for i, s := range x {
			parts[i] = strconv.Quote(s)
		}
		return "[" + strings.Join(parts, " ") + "]"
	}
	panic(fmt.Sprintf("verifrt.Observe: unsupported type %T", v))
}

func runOne(m *model, fn func()) (res result) {
	res.ID = m.ID
	st := &state{m: m, count: map[string]int{}}
	cur = st
	done := make(chan struct{})
	go func() {
		defer close(done)
		defer func() {
			if r := recover(); r != nil {
				switch x := r.(type) {
				case assertFail:
					res.Outcome, res.Label = "assert", x.label
				case assumeFail:
					res.Outcome = "assume"
				default:
					res.Outcome, res.Msg = "panic", fmt.Sprint(r)
				}
			}
		}()
		fn()
		res.Outcome = "ok"
	}()
	to := time.Duration(m.Timeout) * time.Millisecond
	if to == 0 {
		to = 20 * time.Second
	}
	select {
	case <-done:
	case <-time.After(to):
		return result{ID: m.ID, Outcome: "timeout", Obs: st.obs}
	}
	res.Obs = st.obs
	if len(st.missing) > 0 && res.Outcome == "ok" {
		res.Outcome, res.Msg = "missing", strings.Join(st.missing, ",")
	}
	return res
}

// ---- child processes: what only happens while a process starts
//
// Package-level initialisers (jtp builds its cache from the configuration
// when the program starts) cannot be run again natively. A harness that is
// about them re-executes the test binary with the environment it wants
// (RunChild); the child runs the registered function instead of the models
// and exits. Under the engine the harness calls Reinit instead, which runs
// the package's real initialisers again.

var children = map[string]func(){}

// RegisterChild names a function a child process can be asked to run.
func RegisterChild(name string, fn func()) { children[name] = fn }

// Reinit (engine only): run the package's initialisers again.
func Reinit(pkg string) {}

// RunChild re-executes this test binary with extra environment and runs the
// registered function there; it reports whether the child ended normally.
func RunChild(name string, env []string) (ok bool, output string) {
	cmd := exec.Command(os.Args[0], "-test.run", "^TestVerifReplay$")
	cmd.Env = append(append(os.Environ(), env...), "VERIF_CHILD="+name)
	out, err := cmd.CombinedOutput()
	return err == nil, string(out)
}

// ReplayMain runs every model of $VERIF_MODELS (JSON lines) through its
// harness and writes one result line each to $VERIF_OUT.
func ReplayMain(t *testing.T, harnesses map[string]func()) {
	if c := os.Getenv("VERIF_CHILD"); c != "" {
		fn := children[c]
		if fn == nil {
			fmt.Fprintln(os.Stderr, "no such child function:", c)
			os.Exit(3)
		}
		fn()
		os.Exit(0)
	}
	in := os.Getenv("VERIF_MODELS")
	if in == "" {
		t.Skip("VERIF_MODELS not set")
	}
	f, err := os.Open(in)
	if err != nil {
		t.Fatal(err)
	}
	defer f.Close()
	out, err := os.Create(os.Getenv("VERIF_OUT"))
	if err != nil {
		t.Fatal(err)
	}
	defer out.Close()
	w := bufio.NewWriter(out)
	defer w.Flush()
	sc := bufio.NewScanner(f)
	sc.Buffer(make([]byte, 1<<20), 1<<26)
	for sc.Scan() {
		var m model
		if err := json.Unmarshal(sc.Bytes(), &m); err != nil {
			t.Fatal(err)
		}
		fn, ok := harnesses[m.Harness]
		var r result
		if !ok {
			r = result{ID: m.ID, Outcome: "panic", Msg: "no such harness " + m.Harness}
		} else {
			r = runOne(&m, fn)
		}
		b, _ := json.Marshal(r)
		w.Write(b)
		w.WriteByte('\n')
		w.Flush()
	}
}
