//go:build verif

package pub

import (
	"servitor/verifrt"
)

// ---- every key the code reads from a fetched object
//
// The list of keys is not written down here: a discovery pass explores
// VerifDiscoverKeys on the current source under the engine and records every
// string key looked up in the object and in the objects nested in it
// (sidecar "discover"). The harness below then places a hostile string under
// each of those keys, in every value shape.

var anyKeyBases = []string{"Note", "Video", "Person", "Announce"}

func anyKeyBase(kind int) map[string]any {
	o := map[string]any{"type": anyKeyBases[kind], "mediaType": "text/plain"}
	if anyKeyBases[kind] == "Announce" {
		o["actor"] = map[string]any{"type": "Person", "mediaType": "text/plain"}
		o["object"] = map[string]any{"type": "Note", "mediaType": "text/plain"}
	}
	return o
}

const anyKeyShapes = 6

// anyKeyShape wraps s the ways a JSON value can hold a string: directly, in
// a list, in a (language-)map under an arbitrary key, in a nested object
// under key k2, and in a list of such objects.
func anyKeyShape(shape int, s string, k2 string) any {
	nested := func(t string) map[string]any {
		m := map[string]any{"type": t, "mediaType": "text/plain"}
		m[k2] = s
		return m
	}
	switch shape {
	case 0:
		return s
	case 1:
		return []any{s}
	case 2:
		return map[string]any{"zz": s}
	case 3:
		return nested("Note")
	case 4:
		return []any{nested("Document")}
	default:
		return nested("Person")
	}
}

func anyKeyExercise(item Tangible, width int) {
	_ = item.Name()
	_ = item.Preview(width)
	_ = item.String(width)
	_ = item.Timestamp()
	ps, _ := item.Parents(1)
	for _, p := range ps {
		_ = p.Name()
		_ = p.Preview(width)
	}
	if c := item.Children(); c != nil {
		items, _, _ := c.Harvest(1, 0)
		for _, it := range items {
			_ = it.Preview(width)
		}
	}
	_, _, _ = item.SelectLink(1)
	switch x := item.(type) {
	case *Post:
		_, _, _ = x.Media()
	case *Actor:
		_, _, _ = x.Banner()
		_, _, _ = x.ProfilePic()
	}
}

// VerifDiscoverKeys (engine only): which keys do the constructors and the
// display methods look up? Known keys are filled in - all at once or one at a
// time, in each shape - so that lookups that depend on another key being
// present (or absent) show up in the next round.
func VerifDiscoverKeys() {
	known := verifrt.Strings("object-keys")
	o := anyKeyBase(verifrt.Choice("base", len(anyKeyBases)))
	mode := verifrt.Choice("mode", 2+len(known))
	if mode >= 1 {
		shape := verifrt.Choice("shape", anyKeyShapes)
		for i, k := range known {
			if k == "type" || k == "mediaType" {
				continue
			}
			if mode == 1 || mode == 2+i {
				k2 := "name"
				o[k] = anyKeyShape(shape, "x", k2)
			}
		}
	}
	verifrt.TraceKeys(o)
	anyKeyExercise(NewTangible(o, nil), 9)
	verifrt.Reach("end")
}

// VerifC01AnyKey: a hostile string under any key the code reads, in any
// value shape, never reaches the terminal through an item's name, preview or
// full text.
func VerifC01AnyKey() {
	keys := verifrt.Strings("object-keys")
	verifrt.Assert(len(keys) > 0, "keys-discovered")
	o := anyKeyBase(verifrt.Choice("base", len(anyKeyBases)))
	key := keys[verifrt.Choice("key", len(keys))]
	k2 := "name"
	if verifrt.Param("pairs", 0) == 1 {
		k2 = keys[verifrt.Choice("key2", len(keys))]
	} else if verifrt.Choice("key2same", 2) == 1 {
		k2 = key
	}
	hostile := "x"
	for i := 0; i < verifrt.Param("runes", 1); i++ {
		// any control character (C0, DEL, C1): only those can violate the
		// statement, and the parsers on the way fork little on them
		r := verifrt.Rune("hostile")
		verifrt.Assume(verifrt.Any(verifrt.All(r < 0x20, r != '\n'), r == 0x7f, verifrt.All(r >= 0x80, r <= 0x9f)))
		hostile += string(r)
	}
	o[key] = anyKeyShape(verifrt.Choice("shape", anyKeyShapes), hostile, k2)
	width := []int{1, 9}[verifrt.Choice("width", 2)]
	item := NewTangible(o, nil)
	verifrt.Assert(verifrt.CleanOutput(item.Name()), "item-name-clean")
	verifrt.Assert(verifrt.CleanOutput(item.Preview(width)), "item-preview-clean")
	verifrt.Assert(verifrt.CleanOutput(item.String(width)), "item-text-clean")
	ps, _ := item.Parents(1)
	for _, p := range ps {
		verifrt.Assert(verifrt.CleanOutput(p.Preview(width)), "parent-preview-clean")
	}
	if c := item.Children(); c != nil {
		items, _, _ := c.Harvest(1, 0)
		for _, it := range items {
			verifrt.Assert(verifrt.CleanOutput(it.Preview(width)), "child-preview-clean")
		}
	}
	// (error texts differ between the stubbed and the real fetch: only the
	// kind of item built is compared on replay)
	kind := 0
	switch item.(type) {
	case *Post:
		kind = 1
	case *Actor:
		kind = 2
	case *Activity:
		kind = 3
	case *Failure:
		kind = 4
	}
	verifrt.Observe("kind", kind)
	verifrt.Reach("end")
}
