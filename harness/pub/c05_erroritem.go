//go:build verif

package pub

import (
	"servitor/jtp"
	"servitor/verifrt"
)

// VerifC05ErrorItem: a response cut at any byte turns into an error item (or,
// if it was complete, the item) - never a crash, never a half-built item.
func VerifC05ErrorItem() {
	raw := "HTTP/1.1 200 OK\r\nContent-Type: application/activity+json\r\n\r\n{\"type\":\"Note\",\"id\":\"https://" + jtp.VHostA + "/n\",\"content\":\"<p>whole</p>\"}"
	w := jtp.NewWorld()
	r := jtp.NewResp(raw)
	r.CutAt = verifrt.Int("cut", 0, len(raw))
	w.Routes[jtp.VHostA+"/n"] = r
	jtp.VerifUseWorld(w, 4)
	item := NewTangible("https://"+jtp.VHostA+"/n", nil)
	_, isFailure := item.(*Failure)
	post, isPost := item.(*Post)
	verifrt.Assert(isFailure || isPost, "an-item-or-an-error-item")
	verifrt.Assert(isPost == (r.CutAt >= len(raw)), "truncated-response-becomes-an-error-item")
	if isPost {
		verifrt.Assert(post.id != nil, "complete-item")
	}
	verifrt.Assert(verifrt.CleanOutput(item.Preview(30)), "error-item-clean")
	verifrt.Observe("failure", isFailure)
	verifrt.Reach("end")
}
