//go:build verif

package pub

import (
	"servitor/jtp"
	"servitor/verifrt"
)

// VerifC05ErrorItem: a response cut at any byte turns into an error item (or,
// if it was complete, the item) - never a crash, never a half-built item.
func VerifC05ErrorItem() {
	raw := "HTTP/1.1 200 OK\r\nContent-Type: application/activity+json\r\n\r\n{\"type\":\"Note\",\"id\":\"https://" + jtp.VHostA + "/n\",\"content\":\"<p>whole</p>\"}"
	w := jtp.NewWorld()
	r := jtp.NewResp(raw)
	r.CutAt = verifrt.Int("cut", 0, len(raw))
	w.Routes[jtp.VHostA+"/n"] = r
	jtp.VerifUseWorld(w, 4)
	item := NewTangible("https://"+jtp.VHostA+"/n", nil)
	_, isFailure := item.(*Failure)
	post, isPost := item.(*Post)
	verifrt.Assert(isFailure || isPost, "an-item-or-an-error-item")
	verifrt.Assert(isPost == (r.CutAt >= len(raw)), "truncated-response-becomes-an-error-item")
	if isPost {
		verifrt.Assert(post.id != nil, "complete-item")
	}
	verifrt.Assert(verifrt.CleanOutput(item.Preview(30)), "error-item-clean")
	verifrt.Observe("failure", isFailure)
	verifrt.Reach("end")
}

// VerifC05StubRefetch: a listing names an object by a same-host stub; the
// follow-up fetch of that object is cut at any byte, refused or never
// answered: the entry must be an error item (or the complete object).
func VerifC05StubRefetch() {
	itemRaw := "HTTP/1.1 200 OK\r\nContent-Type: application/activity+json\r\n\r\n{\"type\":\"Note\",\"id\":\"https://" + jtp.VHostA + "/item\",\"content\":\"<p>whole</p>\"}"
	w := jtp.NewWorld()
	w.Routes[jtp.VHostA+"/coll"] = c09Doc(`{"type":"Collection","id":"https://` + jtp.VHostA + `/coll","items":[{"id":"https://` + jtp.VHostA + `/item","type":"Note"}]}`)
	r := jtp.NewResp(itemRaw)
	complete := false
	switch verifrt.Choice("fault", 4) {
	case 0:
		r.CutAt = verifrt.Int("cut", 0, len(itemRaw))
		complete = r.CutAt >= len(itemRaw)
	case 1:
		r.NoAnswer = true
	case 2:
		r = jtp.NewResp("HTTP/1.1 500 Oops\r\n\r\n")
	default:
		complete = true
	}
	w.Routes[jtp.VHostA+"/item"] = r
	jtp.VerifUseWorld(w, 4)
	c, isColl := New("https://"+jtp.VHostA+"/coll", nil).(*Collection)
	verifrt.Assert(isColl, "collection-loads")
	if !isColl {
		return
	}
	items, _, _ := c.Harvest(1, 0)
	verifrt.Assert(len(items) == 1, "entry-appears")
	if len(items) == 1 {
		post, isPost := items[0].(*Post)
		_, isFailure := items[0].(*Failure)
		verifrt.Assert(isPost || isFailure, "an-item-or-an-error-item")
		verifrt.Assert(isPost == complete, "faulted-refetch-becomes-an-error-item")
		if isPost {
			verifrt.Assert(post.bodyErr == nil, "a-genuine-item-is-the-complete-object")
		}
	}
	verifrt.Reach("end")
}
