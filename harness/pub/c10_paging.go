//go:build verif

package pub

import (
	"net/url"
	"servitor/mime"
	"servitor/verifrt"
	"time"
)

type c10Item struct{ tag int }

func (v *c10Item) String(width int) string                              { return "" }
func (v *c10Item) Preview(width int) string                             { return "" }
func (v *c10Item) Parents(uint) ([]Tangible, Tangible)                  { return nil, nil }
func (v *c10Item) Children() Container                                  { return nil }
func (v *c10Item) Timestamp() time.Time                                 { return time.Time{} }
func (v *c10Item) Name() string                                         { return "" }
func (v *c10Item) SelectLink(input int) (string, *mime.MediaType, bool) { return "", nil, false }

func c10Construct(input any, source *url.URL) Tangible {
	if f, ok := input.(float64); ok {
		return &c10Item{tag: int(f)}
	}
	return NewFailure(ErrWrongType)
}

const (
	linkNone = iota
	linkNext
	linkFailURL  // "next" is a URL whose fetch fails
	linkFailType // "next" has a type that cannot be a page
	linkBack     // back-edge to an earlier page: a cycle
)

type c10Page struct {
	items []int
	link  int
	back  int // target of a back edge
	obj   map[string]any
}

// c10Chain builds an embedded page chain from symbolic choices.
func c10Chain(maxPages, maxLen int) []*c10Page {
	n := 1 + verifrt.Choice("pages", maxPages)
	ordered := verifrt.Choice("ordered", 2) == 1
	pages := make([]*c10Page, n)
	tag := 0
	for i := range pages {
		p := &c10Page{obj: map[string]any{}}
		k := verifrt.Choice("len", maxLen+1)
		for j := 0; j < k; j++ {
			tag++
			p.items = append(p.items, tag)
		}
		pages[i] = p
	}
	alsoFirst := verifrt.Choice("alsofirst", 2) == 1
	// the root may announce a total - the number of items it inlines itself, so
	// that it looks complete although pages follow; paging does not depend on it
	if len(pages) > 1 && len(pages[0].items) > 0 && verifrt.Choice("total", 2) == 1 {
		pages[0].obj["totalItems"] = float64(len(pages[0].items))
	}
	for i, p := range pages {
		itemsKey, kind, nextKey := "items", "CollectionPage", "next"
		if ordered {
			itemsKey, kind = "orderedItems", "OrderedCollectionPage"
		}
		if i == 0 {
			nextKey = "first"
			kind = "Collection"
			if ordered {
				kind = "OrderedCollection"
			}
		}
		p.obj["type"] = kind
		if len(p.items) > 0 || verifrt.Choice("emptykey", 2) == 1 {
			l := make([]any, len(p.items))
			for j, t := range p.items {
				l[j] = float64(t)
			}
			p.obj[itemsKey] = l
		}
		if i > 0 && len(pages) > 1 && alsoFirst {
			p.obj["first"] = pages[1].obj // pages may point back at the first page; paging follows "next"
		}
		if i+1 < len(pages) {
			p.link = linkNext
			p.obj[nextKey] = pages[i+1].obj
			continue
		}
		switch verifrt.Choice("tail", 5) {
		case 0:
			p.link = linkNone
		case 1:
			p.link = linkFailURL
			p.obj[nextKey] = "https://unreachable.example/page"
		case 2:
			p.link = linkFailType
			p.obj[nextKey] = 42.0
		case 3:
			p.link = linkNone
			p.obj[nextKey] = nil // explicit null: the same as absent
		default:
			if i == 0 {
				p.link = linkNone // a root cannot be its own page (different key)
			} else {
				p.link = linkBack
				p.back = 1 + verifrt.Choice("backto", i)
				p.obj[nextKey] = pages[p.back].obj
			}
		}
	}
	return pages
}

type c10Pos struct{ page, off int }

// c10Next: the next genuine item at or after pos, walking the chain. It
// reports what lies in between: consecutive empty pages, a failing link, the
// end of the chain.
func c10Next(pages []*c10Page, pos c10Pos) (item int, np c10Pos, empties int, failed, ended bool) {
	steps := 0
	for {
		p := pages[pos.page]
		if pos.off < len(p.items) {
			return p.items[pos.off], c10Pos{pos.page, pos.off + 1}, empties, false, false
		}
		if len(p.items) == 0 {
			empties++
		} else if pos.off == 0 {
			empties = 0
		}
		switch p.link {
		case linkNone:
			return 0, pos, empties, false, true
		case linkFailURL, linkFailType:
			return 0, pos, empties, true, false
		case linkNext:
			pos = c10Pos{pos.page + 1, 0}
		case linkBack:
			pos = c10Pos{p.back, 0}
		}
		steps++
		if steps > 4*len(pages)+8 {
			return 0, pos, empties, false, false // endless run of empty pages
		}
	}
}

// VerifC10Paging: paging a collection through its continuations.
func VerifC10Paging() {
	pages := c10Chain(verifrt.Param("pages", 4), verifrt.Param("len", 2))
	c, err := NewCollectionFromObject(pages[0].obj, nil, c10Construct)
	verifrt.Assert(err == nil && c != nil, "collection-built")
	var cont Container = c
	// the first request may start at any offset of the root (the UI resumes
	// collections at a saved offset); offsets past the root's items skip it
	start0 := verifrt.Int("start", 0, verifrt.Param("maxstart", 2))
	start := uint(start0)
	skip := verifrt.Concrete(verifrt.IteInt(start0 < len(pages[0].items), start0, len(pages[0].items)))
	pos := c10Pos{0, skip} // reference position: everything before it has been delivered
	nreq := 1 + verifrt.Choice("requests", verifrt.Param("requests", 2))
	delivered := 0
	for r := 0; r < nreq && cont != nil; r++ {
		n := verifrt.Int("n", 0, verifrt.Param("maxn", 4))
		items, next, nextStart := cont.Harvest(uint(n), start)
		genuine := 0
		errors := 0
		for i, it := range items {
			switch x := it.(type) {
			case *c10Item:
				verifrt.Assert(errors == 0, "nothing-after-an-error-item")
				want, np, _, failed, ended := c10Next(pages, pos)
				verifrt.Assert(!failed && !ended && want != 0 && x.tag == want, "items-are-the-true-sequence-in-order")
				pos = np
				genuine++
				delivered++
			case *Failure:
				errors++
				verifrt.Assert(i == len(items)-1, "error-item-only-last")
			default:
				verifrt.Assert(false, "unexpected-item-type")
			}
		}
		verifrt.Assert(genuine <= n, "never-more-than-asked")
		verifrt.Assert(errors <= 1, "at-most-one-error-item")
		if errors == 1 {
			verifrt.Assert(next == nil, "error-ends-the-paging")
			_, _, empties, failed, _ := c10Next(pages, pos)
			verifrt.Assert(failed || empties > 3, "delivery-cut-short-only-by-failing-page-or-over-three-empty-pages")
		}
		if genuine < n && errors == 0 {
			verifrt.Assert(next == nil, "fewer-than-asked-only-at-the-end")
		}
		if next == nil && errors == 0 {
			_, _, _, failed, ended := c10Next(pages, pos)
			verifrt.Assert(ended && !failed, "empty-continuation-only-when-exhausted")
		}
		cont, start = next, nextStart
	}
	verifrt.Observe("delivered", delivered)
	verifrt.Reach("end")
}
