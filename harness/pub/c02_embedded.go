//go:build verif

package pub

import (
	"servitor/jtp"
	"servitor/verifrt"
	"strings"
)

const (
	c02E = "https://" + jtp.VHostA // the host that embeds
	c02V = "https://" + jtp.VHostB // the host whose objects it would like to supply
)

func c02ForgedNote(withID bool) string {
	id := ""
	if withID {
		id = `"id":"` + c02V + `/note",`
	}
	return `{"type":"Note",` + id + `"name":"n","content":"forged by E"}`
}

// VerifC02Embedded: whatever an embedding host puts into its documents, a post
// shown under an id of another host carries that host's own content.
func VerifC02Embedded() {
	w := jtp.NewWorld()
	w.Routes[jtp.VHostB+"/note"] = c09Doc(`{"type":"Note","id":"` + c02V + `/note","name":"n","content":"genuine from V"}`)
	w.Routes[jtp.VHostB+"/create"] = c09Doc(`{"type":"Create","id":"` + c02V + `/create","actor":"` + c02V + `/alice","object":"` + c02V + `/note"}`)
	w.Routes[jtp.VHostB+"/alice"] = c09Doc(`{"type":"Person","id":"` + c02V + `/alice","name":"alice"}`)
	mallory := c02E + "/mallory"
	var entry string
	shape := verifrt.Choice("shape", 8)
	if shape == 7 {
		// V's own actor: its outbox (id on V) continues on a page served by E, which
		// has no id of its own and embeds a forged copy of V's note in an activity by alice
		w.Routes[jtp.VHostB+"/alice"] = c09Doc(`{"type":"Person","id":"` + c02V + `/alice","name":"alice","outbox":{"type":"OrderedCollection","id":"` + c02V + `/outbox","totalItems":1,"first":"` + c02E + `/page"}}`)
		w.Routes[jtp.VHostA+"/page"] = c09Doc(`{"type":"OrderedCollectionPage","orderedItems":[{"type":"Create","actor":"` + c02V + `/alice","object":` + c02ForgedNote(true) + `},{"type":"Create","id":"` + c02V + `/create","actor":"` + c02V + `/alice","object":` + c02ForgedNote(true) + `}]}`)
		jtp.VerifUseWorld(w, 16)
		c02CheckActor(c02V + "/alice")
		verifrt.Reach("end")
		return
	}
	switch shape {
	case 0: // inline Create claiming V's id, wrapping a forged copy of V's note
		entry = `{"type":"Create","id":"` + c02V + `/create","actor":"` + mallory + `","object":` + c02ForgedNote(true) + `}`
	case 1: // the same without an id on the Create
		entry = `{"type":"Create","actor":"` + mallory + `","object":` + c02ForgedNote(true) + `}`
	case 2: // an Announce of a forged copy
		entry = `{"type":"Announce","actor":"` + mallory + `","object":` + c02ForgedNote(true) + `}`
	case 3: // an Announce whose object is an inline Create (Lemmy style) claiming V's id
		entry = `{"type":"Announce","actor":"` + mallory + `","object":{"type":"Create","id":"` + c02V + `/create","actor":"` + c02V + `/alice","object":` + c02ForgedNote(true) + `}}`
	case 4: // a forged stub
		entry = `{"type":"Like","actor":"` + mallory + `","object":{"id":"` + c02V + `/note","content":"forged by E"}}`
	case 5: // mallory's own note replying to a forged embedded copy of V's note
		entry = `{"type":"Create","actor":"` + mallory + `","object":{"type":"Note","name":"r","content":"reply","inReplyTo":` + c02ForgedNote(true) + `}}`
	default: // an honest announce by reference
		entry = `{"type":"Announce","actor":"` + mallory + `","object":"` + c02V + `/note"}`
	}
	w.Routes[jtp.VHostA+"/mallory"] = c09Doc(`{"type":"Person","id":"` + mallory + `","name":"mallory","outbox":{"type":"OrderedCollection","orderedItems":[` + entry + `]}}`)
	jtp.VerifUseWorld(w, 16)
	c02CheckActor(mallory)
	verifrt.Reach("end")
}

func c02CheckActor(url string) {
	item := New(url, nil)
	actor, ok := item.(*Actor)
	verifrt.Assert(ok && actor.Children() != nil, "actor-loads")
	if !ok || actor.Children() == nil {
		return
	}
	items, _, _ := actor.Children().Harvest(3, 0)
	checked := 0
	var check func(t Tangible, depth int)
	check = func(t Tangible, depth int) {
		switch x := t.(type) {
		case *Activity:
			check(x.Target(), depth)
		case *Post:
			if x.id != nil && x.id.Host == jtp.VHostB {
				text := x.String(60)
				verifrt.Assert(strings.Contains(text, "genuine from V") && !strings.Contains(text, "forged"), "post-under-V's-id-shows-V's-content")
				checked++
			}
			if depth > 0 {
				parents, _ := x.Parents(1)
				for _, p := range parents {
					check(p, depth-1)
				}
			}
		}
	}
	for _, it := range items {
		check(it, 1)
	}
	verifrt.Observe("checked", checked)
}
