//go:build verif

package pub

import (
	"servitor/object"
	"servitor/verifrt"
)

// VerifC01ItemFields: strings of fetched JSON (any scalar, controls included)
// placed in the fields an item displays, in each of the text media types.
func VerifC01ItemFields() {
	n := verifrt.Param("runes", 1)
	// exactly one field per run carries the hostile string
	fields := []string{"name", "content", "att", "h", "l", "q", "user", "bio", "type", "atturl"}
	hot := fields[verifrt.Choice("field", len(fields))]
	// the hostile string: arbitrary scalars, or a control character written in
	// one of the encodings some layer might decode (character references,
	// percent-escapes, JSON escapes that arrive as literal text): where they
	// are not decoded they are harmless, where they are the result is a control
	encoded := []string{"", "&#27;[2J", "&#x9b;31m", "&#155;&#7;", "%1B[2J%9B", "\\u001b[2J\\x1b", "&amp;#27;[2J", "&NewLine;&#0;&#x1B;"}
	enc := verifrt.Choice("encoded", len(encoded))
	raw := func(name string) string {
		if name != hot {
			return ""
		}
		if enc > 0 {
			return encoded[enc]
		}
		s := ""
		for i := 0; i < n; i++ {
			s += string(verifrt.Rune("hostile"))
		}
		return s
	}
	var width int
	if enc > 0 {
		// (concrete content: two widths instead of a symbolic one)
		width = []int{1, 8}[verifrt.Choice("encwidth", 2)]
	} else {
		width = verifrt.Int("width", 1, verifrt.Param("maxw", 12))
	}
	var item Tangible
	kind := map[string]int{"name": 0, "content": 0, "att": 0, "h": 1, "l": 1, "q": 1, "user": 2, "bio": 2, "type": 3, "atturl": 4}[hot]
	if hot == "name" && verifrt.Choice("onactor", 2) == 1 {
		kind = 2
	}
	switch kind {
	case 0: // plain-text post
		o := object.Object{"type": "Note", "name": "t" + raw("name"), "mediaType": "text/plain", "content": "see https://a.b/c " + raw("content"),
			"attachment": []any{map[string]any{"type": "Document", "url": "https://a/d", "name": "doc " + raw("att")}}}
		p, err := NewPostFromObject(o, nil)
		verifrt.Assert(err == nil, "post-built")
		item = p
	case 1: // gemtext post
		o := object.Object{"type": "Page", "mediaType": "text/gemini", "content": "# h" + raw("h") + "\n=> gemini://x/y l" + raw("l") + "\n> q" + raw("q")}
		p, err := NewPostFromObject(o, nil)
		verifrt.Assert(err == nil, "post-built")
		item = p
	case 2: // actor
		o := object.Object{"type": "Service", "name": "n" + raw("name"), "preferredUsername": "u" + raw("user"), "mediaType": "text/plain", "summary": "bio " + raw("bio")}
		a, err := NewActorFromObject(o, nil)
		verifrt.Assert(err == nil, "actor-built")
		item = a
	case 4: // a nameless attachment is labelled by its URL, which may hold any percent-escape
		h1, h2 := verifrt.Byte("hex"), verifrt.Byte("hex")
		verifrt.Assume(verifrt.All(verifrt.InSet(h1, "0123456789abcdefABCDEF"), verifrt.InSet(h2, "0123456789abcdefABCDEF")))
		o := object.Object{"type": "Note", "content": "c",
			"attachment": []any{map[string]any{"type": "Document", "url": "https://a.example/d%" + string([]byte{h1, h2}) + "%5B2J"}}}
		p, err := NewPostFromObject(o, nil)
		verifrt.Assert(err == nil, "post-built")
		item = p
	default: // a post whose type string is hostile: the error item quotes it
		o := object.Object{"type": "X" + raw("type"), "content": "c"}
		item = NewTangible(map[string]any(o), nil)
	}
	verifrt.Assert(verifrt.CleanOutput(item.Name()), "item-name-clean")
	verifrt.Assert(verifrt.CleanOutput(item.Preview(width)), "item-preview-clean")
	verifrt.Assert(verifrt.CleanOutput(item.String(width)), "item-text-clean")
	verifrt.Observe("name", item.Name())
	verifrt.Reach("end")
}
