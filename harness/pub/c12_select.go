//go:build verif

package pub

import (
	"servitor/object"
	"servitor/verifrt"
	"strings"
)

const superscriptsPub = "⁰¹²³⁴⁵⁶⁷⁸⁹"

func superDigitPub(r rune) int {
	i := 0
	for _, s := range superscriptsPub {
		if s == r {
			return i
		}
		i++
	}
	return -1
}

func vNumbersPub(sc *verifrt.Screen) (nums []int, labels []byte) {
	last := byte(0)
	cur, inNum := 0, false
	flush := func() {
		if inNum {
			nums = append(nums, cur)
			labels = append(labels, last)
			cur, inNum = 0, false
		}
	}
	for _, line := range sc.Lines {
		for _, c := range line {
			if d := superDigitPub(c.R); d >= 0 {
				cur = cur*10 + d
				inNum = true
				continue
			}
			flush()
			if c.R >= 'A' && c.R <= 'Z' {
				last = byte(c.R)
			}
		}
		flush()
	}
	return
}

// VerifC12PostLinks: body links and attachments of a post are numbered
// 1..N in its full text, SelectLink(k) opens the target labelled k, and any
// other integer opens nothing (and never panics).
func VerifC12PostLinks() {
	nBody := verifrt.Choice("bodylinks", 3)
	nAtt := verifrt.Choice("attachments", verifrt.Param("attachments", 2)+1)
	targets := map[byte]string{}
	var order []string
	content := "<p>see "
	for i := 0; i < nBody; i++ {
		l := byte('A' + i)
		t := "https://body.example/" + string(l)
		targets[l] = t
		order = append(order, t)
		content += `<a href="` + t + `">` + string(l) + `</a> and `
	}
	content += "more</p>"
	atts := []any{}
	for j := 0; j < nAtt; j++ {
		l := byte('A' + nBody + j)
		t := "https://att.example/" + string(l)
		targets[l] = t
		order = append(order, t)
		att := map[string]any{"type": "Document", "url": t}
		if nBody > 0 && verifrt.Choice("duplicate", 3) == 2 {
			// an attachment may point at the same target as a body link; it still is its own numbered entry
			t = "https://body.example/A"
			targets[l] = t
			order[len(order)-1] = t
			att["url"] = t
			att["name"] = "file " + string(l)
		} else if verifrt.Choice("named", 2) == 1 {
			att["name"] = "file " + string(l)
		} else {
			// unnamed attachments are labelled by their URL: make it carry the label last
			att["url"] = "https://att.example/x" + string(l)
			targets[l] = "https://att.example/x" + string(l)
			order[len(order)-1] = targets[l]
		}
		atts = append(atts, att)
	}
	o := object.Object{"type": "Note", "content": content}
	if nAtt > 0 || verifrt.Choice("emptylist", 2) == 1 {
		o["attachment"] = atts
	}
	p, err := NewPostFromObject(o, nil)
	verifrt.Assert(err == nil && p != nil, "post-built")
	N := nBody + nAtt

	width := verifrt.Int("width", 12, verifrt.Param("maxw", 30))
	full := p.String(width)
	sc := verifrt.Parse(full)
	verifrt.Assert(sc.OK && sc.NeutralAtBreaks(), "post-text-well-formed-and-neutral")
	nums, labels := vNumbersPub(sc)
	seen := make([]int, N+2)
	inRange := true
	for _, k := range nums {
		if k < 1 || k > N {
			inRange = false
		} else {
			seen[k]++
		}
	}
	verifrt.Assert(inRange, "numbers-within-1..N")
	once := true
	for k := 1; k <= N; k++ {
		once = once && seen[k] == 1
	}
	verifrt.Assert(once, "numbers-1..N-each-shown-once")
	agree := true
	for i, k := range nums {
		if k >= 1 && k <= N && labels[i] != 0 {
			link, _, present := p.SelectLink(k)
			agree = agree && present && link == targets[labels[i]]
		}
	}
	verifrt.Assert(agree, "number-next-to-label-opens-that-target")

	// every integer: k in 1..N opens the k-th target, anything else opens nothing
	k := int(verifrt.Int64("k"))
	link, mt, present := p.SelectLink(k)
	if k >= 1 && k <= N {
		kk := verifrt.Concrete(k)
		verifrt.Assert(present && link == order[kk-1] && mt != nil, "select-k-opens-kth-target")
	} else {
		verifrt.Assert(!present && link == "" && mt == nil, "select-outside-1..N-opens-nothing")
	}
	verifrt.Observe("present", present)
	verifrt.Observe("link", link)
	verifrt.Reach("end")
}

// VerifC12ActorLinks: the same for the links of a profile's biography.
func VerifC12ActorLinks() {
	nBio := verifrt.Choice("biolinks", 3)
	var order []string
	targets := map[byte]string{}
	summary := "<p>"
	for i := 0; i < nBio; i++ {
		l := byte('A' + i)
		t := "https://bio.example/" + string(l)
		targets[l] = t
		order = append(order, t)
		summary += `<a href="` + t + `">` + string(l) + `</a> `
	}
	summary += "bio</p>"
	o := object.Object{"type": "Person", "name": "someone", "summary": summary}
	a, err := NewActorFromObject(o, nil)
	verifrt.Assert(err == nil && a != nil, "actor-built")
	width := verifrt.Int("width", 12, verifrt.Param("maxw", 30))
	sc := verifrt.Parse(a.String(width))
	verifrt.Assert(sc.OK && sc.NeutralAtBreaks(), "actor-text-well-formed-and-neutral")
	nums, labels := vNumbersPub(sc)
	ok := len(nums) == nBio
	for i, k := range nums {
		ok = ok && k == i+1
		if k >= 1 && k <= nBio && labels[i] != 0 {
			link, _, present := a.SelectLink(k)
			ok = ok && present && link == targets[labels[i]]
		}
	}
	verifrt.Assert(ok, "bio-numbers-1..N-in-order-and-open-their-targets")
	k := int(verifrt.Int64("k"))
	link, mt, present := a.SelectLink(k)
	if k >= 1 && k <= nBio {
		verifrt.Assert(present && link == order[verifrt.Concrete(k)-1] && mt != nil, "select-k-opens-kth-target")
	} else {
		verifrt.Assert(!present && link == "" && mt == nil, "select-outside-1..N-opens-nothing")
	}
	verifrt.Observe("present", present)
	verifrt.Reach("end")
}

var _ = strings.Repeat
