//go:build verif

package pub

import (
	"errors"
	"net/url"
	"servitor/object"
	"servitor/verifrt"
)

// VerifStubFetchURL stands in for client.FetchURL under the engine: every
// fetch fails. (Natively the sandbox has no network, so the real function
// fails too.)
func VerifStubFetchURL(uri *url.URL) (object.Object, *url.URL, error) {
	return nil, nil, errors.New("stub: fetch failed")
}

// candidate strings, the most interesting first (quick uses a prefix)
var c06Strings = []string{
	"", "Note", "Person", "Create", "Collection", "Link", "Video", "Tombstone",
	"https://h.example/x", "not a url %zz", "0001-01-01T00:00:00Z", "text/plain", "text/gemini", "garbage",
	"<blockquote><hr></blockquote><ul><li><pre>x\ty</pre><h6>h</h6>", "=> https://a/b l\n# t\n```\ncode",
	"2024-01-02T03:04:05Z", "9999-12-31T23:59:59Z", "yesterday", "text/html", "text/markdown", "image/png", "plain https://a.b/c text",
}

var c06Floats = []float64{0, -1, 1.5, 1e300, 18446744073709551616, 1e15, 4e18}

func c06Float(name string) float64 {
	if verifrt.Param("cannedfloats", 0) == 1 {
		return c06Floats[verifrt.Choice(name+"-canned", len(c06Floats))]
	}
	f := verifrt.Float64(name)
	verifrt.Assume(f == f)
	verifrt.Assume(f-f == 0.0)
	return f
}

var c06Totals = []float64{1e15, 18446744073709551616, 3, 4e18, -1, 1.5, 0, 1e300}

var c06ElemStrings = []string{"", "Note", "https://h.example/x", "garbage"}

func c06Elem(name string) any {
	switch verifrt.Choice(name+"-ekind", 4) {
	case 0:
		return nil
	case 1:
		return c06Float(name + "-f")
	case 2:
		return c06ElemStrings[verifrt.Choice(name+"-s", len(c06ElemStrings))]
	default:
		m := map[string]any{}
		if verifrt.Choice(name+"-typed", 2) == 1 {
			m["type"] = c06Strings[1+verifrt.Choice(name+"-t", verifrt.Param("types", 7))]
			m["url"] = "https://h.example/u"
		}
		return m
	}
}

// c06Value: any JSON value (lists and objects hold simple elements).
func c06Value(name string, depth int) any {
	switch verifrt.Choice(name+"-kind", 6) {
	case 0:
		return nil
	case 1:
		return verifrt.Bool(name + "-b")
	case 2:
		return c06Float(name + "-f")
	case 3:
		return c06Strings[verifrt.Choice(name+"-s", verifrt.Param("strings", len(c06Strings)))]
	case 4:
		n := verifrt.Choice(name+"-n", depth+2)
		l := make([]any, n)
		for i := range l {
			l[i] = c06Elem(name + "-el")
		}
		return l
	default:
		m := map[string]any{}
		switch verifrt.Choice(name+"-shape", 4) {
		case 0:
		case 1:
			m["type"] = c06Strings[1+verifrt.Choice(name+"-t", verifrt.Param("types", 7))]
		case 3:
			// a collection (replies, outbox, comments) announcing any number of items
			m["type"] = []string{"Collection", "OrderedCollection"}[verifrt.Choice(name+"-ct", 2)]
			// (canned magnitudes: a symbolic double here multiplies floating-point queries beyond the budget)
			m["totalItems"] = c06Totals[verifrt.Choice(name+"-total", verifrt.Param("totals", len(c06Totals)))]
			m["items"] = []any{}
		default:
			m["type"] = c06Strings[1+verifrt.Choice(name+"-t", verifrt.Param("types", 7))]
			m["url"] = c06Elem(name + "-u")
			m["name"] = "inner name"
			m["mediaType"] = "image/png"
			m["content"] = "<p>inner</p>"
		}
		return m
	}
}

var c06Keys = [][]string{
	{"type", "name", "content", "mediaType", "published", "updated", "inReplyTo", "url", "attributedTo", "audience", "attachment", "replies", "comments"},
	{"type", "name", "preferredUsername", "summary", "mediaType", "published", "icon", "image", "outbox"},
	{"type", "published", "actor", "object"},
	{"type", "items", "orderedItems", "first", "next", "totalItems"},
	{"type", "href", "url", "height", "width", "mediaType", "name"},
}

var c06Widths = []int{-5, 0, 2, 9}

func c06Width() int {
	if verifrt.Param("allwidths", 0) == 1 {
		return verifrt.Int("width", -6, 16)
	}
	return c06Widths[verifrt.Choice("width", len(c06Widths))]
}

type c06Args struct {
	w, k    int
	parents uint
	harvest uint
}

func c06Exercise(t Tangible, a c06Args) {
	w, k := a.w, a.k
	_ = t.String(w)
	_ = t.Preview(w)
	_ = t.Name()
	_ = t.Timestamp()
	ps, _ := t.Parents(a.parents)
	for _, p := range ps {
		_ = p.Name()
	}
	if c := t.Children(); c != nil {
		items, _, _ := c.Harvest(a.harvest, 0)
		for _, it := range items {
			_ = it.Preview(w)
		}
	}
	_, _, _ = t.SelectLink(k)
	switch x := t.(type) {
	case *Post:
		_, _, _ = x.Media()
		for _, c := range x.Creators() {
			_ = c.Name()
		}
		for _, c := range x.Recipients() {
			_ = c.Name()
		}
	case *Actor:
		_, _, _ = x.Banner()
		_, _, _ = x.ProfilePic()
	case *Activity:
		_ = x.Actor().Name()
		_ = x.Target().Name()
	}
}

func c06Base(kind int) object.Object {
	switch kind {
	case 0:
		return object.Object{"type": "Note", "content": "<p>hello <a href=\"https://a/b\">link</a></p>", "published": "2024-01-02T03:04:05Z",
			"attachment": []any{map[string]any{"type": "Document", "url": "https://a/doc", "name": "doc"}}, "url": "https://h.example/n"}
	case 1:
		return object.Object{"type": "Person", "name": "n", "preferredUsername": "u", "summary": "<p>bio</p>", "published": "2024-01-02T03:04:05Z",
			"icon": map[string]any{"type": "Image", "url": "https://a/i.png"}}
	case 2:
		return object.Object{"type": "Like", "published": "2024-01-02T03:04:05Z",
			"actor":  map[string]any{"type": "Person", "name": "liker"},
			"object": map[string]any{"type": "Note", "content": "liked"}}
	case 3:
		return object.Object{"type": "OrderedCollection", "totalItems": 2.0,
			"orderedItems": []any{map[string]any{"type": "Note", "content": "one"}, "https://h.example/two"}}
	default:
		return object.Object{"type": "Link", "href": "https://h.example/l", "height": 3.0, "width": 4.0, "mediaType": "image/png"}
	}
}

// VerifC06Items: every constructor and every item method on JSON with one or
// two keys replaced by arbitrary values, at degenerate widths and for every
// integer link number. The implicit assertion is "no panic".
func VerifC06Items() {
	kind := verifrt.Choice("base", 5)
	o := c06Base(kind)
	// one "mode" ties width and the secondary arguments together so that they
	// do not multiply the space; the link number is fully symbolic in mode 0
	var args c06Args
	if verifrt.Param("allwidths", 0) == 1 {
		args = c06Args{w: verifrt.Int("width", -6, 16), k: int(verifrt.Int64("k")), parents: uint(verifrt.Choice("parents", 3)), harvest: uint(verifrt.Choice("harvest", 3))}
	} else {
		switch verifrt.Choice("mode", 4) {
		case 0:
			args = c06Args{w: -5, k: int(verifrt.Int64("k"))}
		case 1:
			args = c06Args{w: 0, k: 1, parents: 2, harvest: 2}
		case 2:
			args = c06Args{w: 2, k: 2, parents: 1, harvest: 1}
		default:
			args = c06Args{w: 9, k: 0}
		}
	}
	nWeird := 1 + verifrt.Choice("weird", verifrt.Param("weird", 1))
	for i := 0; i < nWeird; i++ {
		key := c06Keys[kind][verifrt.Choice("key", len(c06Keys[kind]))]
		if verifrt.Choice("drop", 8) == 0 {
			delete(o, key)
		} else {
			o[key] = c06Value("v", verifrt.Param("depth", 1))
		}
	}
	built := c06BuildAndExercise(o, args)
	verifrt.Observe("built", built)
	verifrt.Reach("end")
}

func c06BuildAndExercise(o object.Object, args c06Args) int {
	built := 0
	if p, err := NewPostFromObject(o, nil); err == nil {
		verifrt.Assert(p != nil, "post-nil-without-error")
		c06Exercise(p, args)
		built++
	} else {
		verifrt.Assert(p == nil, "post-with-error")
	}
	if a, err := NewActorFromObject(o, nil); err == nil {
		verifrt.Assert(a != nil, "actor-nil-without-error")
		c06Exercise(a, args)
		built++
	}
	if a, err := NewActivityFromObject(o, nil); err == nil {
		verifrt.Assert(a != nil, "activity-nil-without-error")
		c06Exercise(a, args)
		built++
	}
	if c, err := NewCollectionFromObject(o, nil, NewTangible); err == nil {
		verifrt.Assert(c != nil, "collection-nil-without-error")
		items, next, _ := c.Harvest(args.harvest+1, args.parents)
		for _, it := range items {
			_ = it.Preview(args.w)
		}
		if next != nil {
			_, _, _ = next.Harvest(1, 0)
		}
		_, _ = c.Size()
		built++
	}
	if l, err := NewLink(map[string]any(o)); err == nil {
		_, _ = l.Alt()
		_, _, _ = l.Select()
		_, _ = SelectBestLink([]*Link{l, l}, "image")
	}
	// the generic entry point
	c06Exercise(NewTangible(map[string]any(o), nil), args)
	return built
}

// VerifC06Types: the "type" of each base object is an arbitrary string of
// letters - whatever kinds the constructors accept, every method must cope.
func VerifC06Types() {
	kind := verifrt.Choice("base", 5)
	o := c06Base(kind)
	n := 4 + verifrt.Choice("typelen", verifrt.Param("typelens", 6))
	t := verifrt.Bytes("type", n)
	for i := 0; i < n; i++ {
		verifrt.Assume(verifrt.Any(verifrt.All(t[i] >= 'a', t[i] <= 'z'), verifrt.All(t[i] >= 'A', t[i] <= 'Z')))
	}
	o["type"] = t
	built := c06BuildAndExercise(o, c06Args{w: 9, k: 1, parents: 1, harvest: 1})
	verifrt.Observe("built", built)
	verifrt.Reach("end")
}

// VerifC06AnyKey: minimal objects (so that every fallback for an absent key
// runs) in which one key - any key the code reads, as discovered from the
// current source - holds an arbitrary JSON value.
func VerifC06AnyKey() {
	keys := verifrt.Strings("object-keys")
	verifrt.Assert(len(keys) > 0, "keys-discovered")
	o := anyKeyBase(verifrt.Choice("base", len(anyKeyBases)))
	key := keys[verifrt.Choice("key", len(keys))]
	o[key] = c06Value("v", verifrt.Param("depth", 1))
	var args c06Args
	switch verifrt.Choice("mode", verifrt.Param("modes", 3)) {
	case 0:
		args = c06Args{w: 0, k: 1, parents: 2, harvest: 2}
	case 1:
		args = c06Args{w: 9, k: 2, parents: 1, harvest: 1}
	default:
		args = c06Args{w: -5, k: int(verifrt.Int64("k"))}
	}
	built := c06BuildAndExercise(object.Object(o), args)
	verifrt.Observe("built", built)
	verifrt.Reach("end")
}
