//go:build verif

package pub

import (
	"servitor/jtp"
	"servitor/style"
	"servitor/verifrt"
)

// VerifC01ErrorItems: raw HTTP response bytes that end up quoted in an error
// item never reach the terminal unsanitised.
func VerifC01ErrorItems() {
	n := verifrt.Choice("len", verifrt.Param("bytes", 3)+1)
	raw := verifrt.Bytes("raw", n)
	kind := verifrt.Choice("kind", 3)
	for i := 0; i < len(raw); i++ {
		verifrt.Assume(raw[i] != 0x0a && (kind != 2 || raw[i] < 0x80)) // a line as ReadString('\n') delivers it
	}
	line := ""
	switch kind {
	case 0:
		line = "HTTP/1.1 " + raw + "\n"
	case 1:
		line = "Content-Type: " + raw + "\n"
	default:
		line = "Location: " + raw + "\n"
	}
	err := jtp.VerifResponseLineError(kind, line)
	if err != nil {
		f := NewFailure(err)
		w := verifrt.Int("width", 1, verifrt.Param("maxw", 3))
		verifrt.Assert(verifrt.CleanOutput(f.Name()), "failure-name-clean")
		verifrt.Assert(verifrt.CleanOutput(f.Preview(w)), "failure-preview-clean")
		verifrt.Assert(verifrt.CleanOutput(f.String(w)), "failure-text-clean")
		verifrt.Assert(verifrt.CleanOutput(style.Problem(err)), "problem-text-clean")
		verifrt.Observe("name", f.Name())
	}
	verifrt.Reach("end")
}
