//go:build verif

package pub

import (
	"net/url"
	"servitor/object"
	"servitor/verifrt"
)

// VerifC08SharedObjects: the fan-outs only read what they share. The items of
// a page very often share one author (one JSON map, inline here, out of the
// fetch cache in production); every post builds that author concurrently with
// its siblings. The strings in the shared objects are ones that sanitising
// changes (a tab, a control character), the timestamps ones that parse.
func VerifC08SharedObjects() {
	names := []string{"plain", "Tab\tby", "bell\x07", "  "}
	author := map[string]any{
		"type":              "Person",
		"name":              names[verifrt.Choice("name", len(names))],
		"preferredUsername": names[verifrt.Choice("handle", len(names))],
		"summary":           "<p>bio\t</p>",
		"published":         "2024-01-02T03:04:05Z",
	}
	shared := map[string]any{"type": "Note", "content": "par\tent", "name": names[verifrt.Choice("title", len(names))], "attributedTo": author}
	n := 2 + verifrt.Choice("items", verifrt.Param("items", 1)+1)
	items := []any{}
	for i := 0; i < n; i++ {
		it := map[string]any{"type": "Note", "content": "hello"}
		switch verifrt.Choice("shape", 3) {
		case 0:
			it["attributedTo"] = author
		case 1:
			it["attributedTo"] = []any{author, author}
			it["to"] = []any{author}
		default:
			it["inReplyTo"] = shared
			it["attributedTo"] = author
		}
		items = append(items, it)
	}
	c, err := NewCollectionFromObject(object.Object{"type": "OrderedCollection", "orderedItems": items}, nil,
		func(input any, source *url.URL) Tangible {
			p, err := NewPost(input, source)
			if err != nil {
				return NewFailure(err)
			}
			return p
		})
	verifrt.Assert(err == nil && c != nil, "collection-built")
	harvested, _, _ := c.Harvest(uint(n), 0)
	verifrt.Assert(len(harvested) == n, "every-item-delivered")
	for _, h := range harvested {
		if p, ok := h.(*Post); ok {
			_ = p.Name()
			for _, cr := range p.Creators() {
				_ = cr.Name()
			}
			ps, _ := p.Parents(1)
			for _, x := range ps {
				_ = x.Name()
			}
		}
	}
	verifrt.Observe("n", len(harvested))
	verifrt.Reach("end")
}
