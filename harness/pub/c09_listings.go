//go:build verif

package pub

import (
	"net/url"
	"servitor/jtp"
	"servitor/verifrt"
	"strconv"
	"strings"
)

func c09Doc(body string) *jtp.VResp {
	return jtp.NewResp("HTTP/1.1 200 OK\r\nContent-Type: application/activity+json\r\n\r\n" + body)
}

const (
	c09A = "https://" + jtp.VHostA
	c09B = "https://" + jtp.VHostB
)

const (
	eLegit = iota
	eOtherActorSameHost
	eOtherActorOtherHost
	eMissingActor
	eByReference
	eFailingReference
	eWrongType
	eEmbeddedOwner
	eEmbeddedForged
	eBarePostByOther
	eBarePostByOwner
	eKinds
)

func c09Entry(kind int) (json string, genuine bool) {
	note := `"object":{"type":"Note","content":"n"}`
	switch kind {
	case eLegit:
		return `{"type":"Create","actor":"` + c09A + `/actor",` + note + `}`, true
	case eOtherActorSameHost:
		return `{"type":"Create","actor":"` + c09A + `/other",` + note + `}`, false
	case eOtherActorOtherHost:
		return `{"type":"Announce","actor":"` + c09B + `/actor2",` + note + `}`, false
	case eMissingActor:
		return `{"type":"Create",` + note + `}`, false
	case eByReference:
		return `"` + c09A + `/act"`, true
	case eFailingReference:
		return `"` + c09A + `/gone"`, false
	case eWrongType:
		return `{"type":"Note","content":"not an activity"}`, false
	case eBarePostByOther:
		// not an activity at all: a post (with a loadable author of this host) listed directly
		return `{"type":"Note","content":"bare","attributedTo":"` + c09A + `/other"}`, false
	case eBarePostByOwner:
		return `{"type":"Note","content":"bare","attributedTo":"` + c09A + `/actor"}`, false
	case eEmbeddedOwner:
		return `{"type":"Like","actor":{"type":"Person","id":"` + c09A + `/actor","name":"me"},` + note + `}`, true
	default:
		return `{"type":"Like","actor":{"type":"Person","id":"` + c09B + `/actor2","name":"pretends"},` + note + `}`, false
	}
}

func c09World() *jtp.VWorld {
	w := jtp.NewWorld()
	w.Routes[jtp.VHostA+"/other"] = c09Doc(`{"type":"Person","id":"` + c09A + `/other","name":"other"}`)
	w.Routes[jtp.VHostB+"/actor2"] = c09Doc(`{"type":"Person","id":"` + c09B + `/actor2","name":"foreign"}`)
	w.Routes[jtp.VHostA+"/act"] = c09Doc(`{"type":"Create","id":"` + c09A + `/act","actor":"` + c09A + `/actor","object":{"type":"Note","content":"by reference"}}`)
	w.Routes[jtp.VHostA+"/gone"] = jtp.NewResp("HTTP/1.1 404 Not Found\r\n\r\n")
	return w
}

// VerifC09Outbox: an actor's timeline shows an entry as genuine only if it is
// an activity performed by that actor; every other entry is an error item in
// its position.
func VerifC09Outbox() {
	w := c09World()
	n := verifrt.Choice("entries", verifrt.Param("entries", 2)+1)
	var parts []string
	var want []bool
	for i := 0; i < n; i++ {
		j, g := c09Entry(verifrt.Choice("kind", eKinds))
		parts = append(parts, j)
		want = append(want, g)
	}
	ownerHasID := verifrt.Choice("ownerid", 2) == 1
	idField := ""
	if ownerHasID {
		idField = `"id":"` + c09A + `/actor",`
	}
	actorDoc := `{"type":"Person",` + idField + `"name":"owner","outbox":{"type":"OrderedCollection","totalItems":` + strconv.Itoa(n) + `,"orderedItems":[` + strings.Join(parts, ",") + `]}}`
	w.Routes[jtp.VHostA+"/actor"] = c09Doc(actorDoc)
	jtp.VerifUseWorld(w, 16)

	item := New(c09A+"/actor", nil)
	actor, ok := item.(*Actor)
	verifrt.Assert(ok, "actor-loads")
	if !ok {
		return
	}
	children := actor.Children()
	verifrt.Assert(children != nil, "actor-has-a-timeline")
	items, _, _ := children.Harvest(uint(n+1), 0)
	verifrt.Assert(len(items) == n, "every-entry-appears-in-its-position")
	for i := 0; i < len(items) && i < n; i++ {
		_, genuine := items[i].(*Activity)
		_, failure := items[i].(*Failure)
		verifrt.Assert(genuine || failure, "entry-is-an-activity-or-an-error-item")
		verifrt.Assert(genuine == (want[i] && ownerHasID), "genuine-only-if-performed-by-this-actor")
		verifrt.Observe("genuine", genuine)
	}
	verifrt.Reach("end")
}

const (
	rLegit = iota
	rOtherParent
	rNoParent
	rEmbeddedParent
	rWrongType
	rForeignAuthor
	rOtherQuery
	rKinds
)

func c09Reply(kind int) (json string, genuine bool) {
	switch kind {
	case rLegit:
		return `{"type":"Note","content":"r","inReplyTo":"` + c09A + `/post?n=1"}`, true
	case rOtherParent:
		return `{"type":"Note","content":"r","inReplyTo":"` + c09A + `/otherpost"}`, false
	case rNoParent:
		return `{"type":"Note","content":"r"}`, false
	case rEmbeddedParent:
		return `{"type":"Note","content":"r","inReplyTo":{"type":"Note","id":"` + c09A + `/post?n=1","content":"embedded parent"}}`, true
	case rWrongType:
		return `{"type":"Person","name":"not a post"}`, false
	case rOtherQuery:
		// answers a different post of the same server, told apart only by the query string
		return `{"type":"Note","content":"r","inReplyTo":"` + c09A + `/post?n=2"}`, false
	default:
		// a reply that claims an author living on another host
		return `{"type":"Note","content":"r","inReplyTo":"` + c09A + `/post?n=1","id":"` + c09A + `/reply","name":"x","attributedTo":"` + c09B + `/actor2"}`, false
	}
}

// VerifC09Replies: a reply is shown under a post only if its reply target is
// that very post; authors must live on the post's host.
func VerifC09Replies() {
	w := c09World()
	w.Routes[jtp.VHostA+"/otherpost"] = c09Doc(`{"type":"Note","id":"` + c09A + `/otherpost","content":"another post"}`)
	w.Routes[jtp.VHostA+"/post?n=2"] = c09Doc(`{"type":"Note","id":"` + c09A + `/post?n=2","content":"post number two"}`)
	n := verifrt.Choice("replies", verifrt.Param("entries", 2)+1)
	var parts []string
	var want []bool
	for i := 0; i < n; i++ {
		j, g := c09Reply(verifrt.Choice("kind", rKinds))
		parts = append(parts, j)
		want = append(want, g)
	}
	author := ""
	authorOK := true
	postID := `"id":"` + c09A + `/post?n=1",`
	switch verifrt.Choice("author", 7) {
	case 5: // a list: an author that fails to load, then one from another host
		author = `"attributedTo":["` + c09A + `/gone","` + c09B + `/actor2"],`
		authorOK = false
	case 6: // a list: a local author, a failing one, a local one - nothing foreign
		author = `"attributedTo":["` + c09A + `/other","` + c09A + `/gone","` + c09A + `/other"],`
	case 3: // a post without an id cannot vouch for an author that has one
		postID = ""
		author = `"attributedTo":"` + c09A + `/other",`
		authorOK = false
	case 4: // neither has an id: nothing contradicts
		postID = ""
		author = `"attributedTo":{"type":"Person","name":"anonymous"},`
	case 1:
		author = `"attributedTo":"` + c09A + `/other",`
	case 2:
		author = `"attributedTo":"` + c09B + `/actor2",`
		authorOK = false
	}
	postDoc := `{"type":"Note",` + postID + author + `"content":"the post","replies":{"type":"Collection","items":[` + strings.Join(parts, ",") + `]}}`
	w.Routes[jtp.VHostA+"/post?n=1"] = c09Doc(postDoc)
	w.Routes[jtp.VHostA+"/reply"] = c09Doc(`{"type":"Note","content":"r","inReplyTo":"` + c09A + `/post?n=1","id":"` + c09A + `/reply","name":"x","attributedTo":"` + c09B + `/actor2"}`)
	jtp.VerifUseWorld(w, 16)

	item := New(c09A+"/post?n=1", nil)
	post, ok := item.(*Post)
	verifrt.Assert(ok == authorOK, "post-shown-with-an-author-only-from-its-own-host")
	if !ok {
		_, isFailure := item.(*Failure)
		verifrt.Assert(isFailure, "rejected-post-is-an-error-item")
		verifrt.Reach("end")
		return
	}
	children := post.Children()
	verifrt.Assert(children != nil, "post-has-replies")
	items, _, _ := children.Harvest(uint(n+1), 0)
	verifrt.Assert(len(items) == n, "every-entry-appears-in-its-position")
	for i := 0; i < len(items) && i < n; i++ {
		if postID == "" {
			want[i] = false // a post without an id has no replies that can reference it
		}
		_, genuine := items[i].(*Post)
		_, failure := items[i].(*Failure)
		verifrt.Assert(genuine || failure, "entry-is-a-post-or-an-error-item")
		verifrt.Assert(genuine == want[i], "reply-genuine-only-if-it-answers-this-post")
		verifrt.Observe("genuine", genuine)
	}
	verifrt.Reach("end")
}

// VerifC09SymbolicActor: the performing actor's URL has symbolic address and
// port digits; the entry is genuine exactly when they name the owner.
func VerifC09SymbolicActor() {
	w := c09World()
	w.Routes[jtp.VHostA+"/actor"] = c09Doc(`{"type":"Person","id":"` + c09A + `/actor","name":"owner"}`)
	w.Routes[jtp.VHostB+"/actor"] = c09Doc(`{"type":"Person","id":"` + c09B + `/actor","name":"namesake on B"}`)
	w.Routes[jtp.VHostC+"/actor"] = c09Doc(`{"type":"Person","id":"https://` + jtp.VHostC + `/actor","name":"namesake on another port"}`)
	jtp.VerifUseWorld(w, 16)
	d, p := verifrt.Byte("addr"), verifrt.Byte("port")
	verifrt.Assume(verifrt.All(verifrt.InSet(d, "12"), verifrt.InSet(p, "12")))
	performer := "https://127.0.0." + string(rune(d)) + ":4781" + string(rune(p)) + "/actor"
	ownerObj := map[string]any{
		"type": "Person", "id": c09A + "/actor", "name": "owner",
		"outbox": map[string]any{"type": "OrderedCollection", "orderedItems": []any{
			map[string]any{"type": "Create", "actor": performer, "object": map[string]any{"type": "Note", "content": "n"}},
		}},
	}
	ownerID, _ := url.Parse(c09A + "/actor")
	actor, err := NewActorFromObject(ownerObj, ownerID)
	verifrt.Assert(err == nil && actor != nil && actor.Children() != nil, "actor-loads")
	if err != nil || actor == nil || actor.Children() == nil {
		return
	}
	items, _, _ := actor.Children().Harvest(2, 0)
	verifrt.Assert(len(items) == 1, "every-entry-appears-in-its-position")
	if len(items) == 1 {
		_, genuine := items[0].(*Activity)
		verifrt.Assert(genuine == (d == '1' && p == '1'), "genuine-only-if-performed-by-this-actor")
		verifrt.Observe("genuine", genuine)
	}
	verifrt.Reach("end")
}
