//go:build verif

package feed

import (
	"servitor/mime"
	"servitor/pub"
	"servitor/verifrt"
	"time"
)

// vItem is an inert Tangible whose identity is its tag.
type vItem struct{ tag int }

func (v *vItem) String(width int) string                                { return "" }
func (v *vItem) Preview(width int) string                               { return "" }
func (v *vItem) Parents(uint) ([]pub.Tangible, pub.Tangible)            { return nil, nil }
func (v *vItem) Children() pub.Container                                { return nil }
func (v *vItem) Timestamp() time.Time                                   { return time.Time{} }
func (v *vItem) Name() string                                           { return "" }
func (v *vItem) SelectLink(input int) (string, *mime.MediaType, bool)   { return "", nil, false }

func tagOf(t pub.Tangible) int {
	if t == nil {
		return -1
	}
	return t.(*vItem).tag
}

// reference model: positions relative to the opened item (position 0);
// items[k] for lo < k < hi; cursor pos.
type refFeed struct {
	items  map[int]int // position -> tag
	lo, hi int         // exclusive bounds
	pos    int
}

func (r *refFeed) contains(off int) bool { p := r.pos + off; return p > r.lo && p < r.hi }

var nextTag int

func freshItems(n int) ([]pub.Tangible, []int) {
	out := make([]pub.Tangible, n)
	tags := make([]int, n)
	for i := range out {
		nextTag++
		out[i] = &vItem{tag: nextTag}
		tags[i] = nextTag
	}
	return out, tags
}

func getPanics(f *Feed, off int) (panicked bool, tag int) {
	defer func() {
		if recover() != nil {
			panicked = true
		}
	}()
	return false, tagOf(f.Get(off))
}

func checkFeed(f *Feed, r *refFeed, label string) {
	// every existing (position -> item) pair agrees with the model
	ok := true
	for p := r.lo + 1; p < r.hi; p++ {
		ok = ok && tagOf(f.feed[p]) == r.items[p]
	}
	verifrt.Assert(ok, label+"-items")
	verifrt.Assert(f.index == r.pos, label+"-cursor")
	verifrt.Assert(f.lowerBound == r.lo && f.upperBound == r.hi, label+"-bounds")
	// lookups at all offsets around the cursor
	for off := -3; off <= 3; off++ {
		verifrt.Assert(f.Contains(off) == r.contains(off), label+"-contains")
		verifrt.Assert(f.IsParent(off) == (r.pos+off < 0), label+"-isparent")
		verifrt.Assert(f.IsChild(off) == (r.pos+off > 0), label+"-ischild")
		panicked, tag := getPanics(f, off)
		verifrt.Assert(panicked == !r.contains(off), label+"-get-panics-iff-absent")
		if !panicked {
			verifrt.Assert(tag == r.items[r.pos+off], label+"-get-right-item")
		}
	}
	if r.contains(0) {
		verifrt.Assert(tagOf(f.Current()) == r.items[r.pos], label+"-current")
	}
}

func applyOp(f *Feed, r *refFeed) {
	switch verifrt.Choice("op", 5) {
	case 0: // append k
		k := verifrt.Choice("k", 3)
		items, tags := freshItems(k)
		f.Append(items)
		for i, t := range tags {
			r.items[r.hi+i] = t
		}
		r.hi += k
	case 1: // prepend k
		k := verifrt.Choice("k", 3)
		items, tags := freshItems(k)
		f.Prepend(items)
		for i, t := range tags {
			r.items[r.lo-i] = t
		}
		r.lo -= k
	case 2:
		f.MoveUp()
		if r.contains(-1) {
			r.pos--
		}
	case 3:
		f.MoveDown()
		if r.contains(1) {
			r.pos++
		}
	case 4:
		f.MoveToCenter()
		if r.contains(-r.pos) {
			r.pos = 0
		}
	}
}

func createFeed() (*Feed, *refFeed) {
	switch verifrt.Choice("create", 3) {
	case 0:
		items, tags := freshItems(1)
		return Create(items[0]), &refFeed{items: map[int]int{0: tags[0]}, lo: -1, hi: 1, pos: 0}
	case 1:
		k := verifrt.Choice("n", 4)
		items, tags := freshItems(k)
		r := &refFeed{items: map[int]int{}, lo: 0, hi: 1 + k, pos: 1}
		for i, t := range tags {
			r.items[1+i] = t
		}
		return CreateAndAppend(items), r
	default:
		return CreateEmpty(), &refFeed{items: map[int]int{}, lo: 0, hi: 0, pos: 0}
	}
}

// VerifC18FeedSeq: sequences of symbolic operations from the three constructors.
func VerifC18FeedSeq() {
	nextTag = 0
	n := verifrt.Param("ops", 4)
	f, r := createFeed()
	checkFeed(f, r, "create")
	for i := 0; i < n; i++ {
		applyOp(f, r)
		checkFeed(f, r, "seq")
	}
	verifrt.Reach("end")
}

// VerifC18FeedStep: one operation from an arbitrary feed satisfying the
// representation invariant (every key strictly between the bounds present;
// cursor within the bounds, or the list/empty start states).
func VerifC18FeedStep() {
	nextTag = 0
	maxN := verifrt.Param("size", 4)
	lo := -verifrt.Choice("below", maxN+1) - verifrt.Choice("lo0", 2) // -1-below (thread) or -below (list)
	hi := 1 + verifrt.Choice("above", maxN+1)
	f := &Feed{feed: map[int]pub.Tangible{}, lowerBound: lo, upperBound: hi}
	r := &refFeed{items: map[int]int{}, lo: lo, hi: hi}
	for p := lo + 1; p < hi; p++ {
		if p == 0 && verifrt.Choice("centerless", 2) == 1 {
			// list feeds (CreateAndAppend) have no item at position 0
			verifrt.Assume(lo == 0)
			continue
		}
		items, tags := freshItems(1)
		f.feed[p] = items[0]
		r.items[p] = tags[0]
	}
	_, haveCenter := r.items[0]
	verifrt.Assume(haveCenter || lo == 0)
	// cursor: any position holding an item, or the list start (1) / empty (0)
	pos := verifrt.Int("pos", lo-1, hi+1)
	_, onItem := r.items[verifrt.Concrete(pos)]
	verifrt.Assume(onItem || (!haveCenter && (pos == 1 || (pos == 0 && hi == 0))))
	f.index, r.pos = pos, pos
	checkFeed(f, r, "pre")
	applyOp(f, r)
	checkFeed(f, r, "step")
	verifrt.Observe("index", f.index)
	verifrt.Observe("lower", f.lowerBound)
	verifrt.Observe("upper", f.upperBound)
	verifrt.Reach("end")
}
