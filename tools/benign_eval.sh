#!/bin/bash
# tools/benign_eval.sh <worktree> <bK> <ID> [<ID>...]
# Applies a property-preserving change (worktree/_benign/bK/patch.diff) in its
# scratch worktree and runs the named quick checks against it; every check
# must exit 0. Results go to /verif/benign/bK/.
set -u
export GOFLAGS=-mod=mod GOPROXY=off GOSUMDB=off GOTOOLCHAIN=local
wt=$1; b=$2; shift 2
src=$wt/_benign/$b
dest=/verif/benign/$b
mkdir -p $dest
cp $src/patch.diff $src/meta.json $dest/
cd $wt && git checkout -q -- . && git apply $src/patch.diff || { echo "$b: patch does not apply"; exit 2; }
cd /verif
res=""
for id in "$@"; do
  GOSYM_REPO=$wt GOSYM_EVIDENCE_DIR=$dest timeout 1500 ./bin/gosym check $id quick > $dest/check_$id.log 2>&1
  code=$?
  res="$res $id=$code"
done
git -C $wt checkout -q -- .
python3 - "$dest/meta.json" "$res" <<'PY'
import json,sys
m=json.load(open(sys.argv[1]))
m['quick_checks_exit_codes']=dict(x.split('=') for x in sys.argv[2].split())
m['how_checked']="patch applied in a scratch worktree; `GOSYM_REPO=<worktree> gosym check <ID> quick` for the properties whose code it touches; 0 = held, no alarm"
json.dump(m,open(sys.argv[1],'w'),indent=1)
PY
echo "$b:$res"
