#!/usr/bin/env python3
# Regenerates /verif/MANIFEST.json from the table below.
import json
props=[json.loads(l) for l in open('/verif/properties.jsonl')]
NOTE="Trusted: go/ssa's translation (x/tools v0.29.0), the gosym interpreter and its intrinsics (checked on every run by replaying witnesses of explored paths natively and comparing observations), z3 4.8.12 (z3 5.1 / cvc5 for retries), the harness oracle, the stubs listed in the evidence file, and the bounds recorded there. Nothing is claimed outside the bounds."
TECH="symbolic execution of go/ssa + SMT (z3), native replay of witnesses and counterexamples"
claimed={
 "C01": ("Bounded symbolic model checking of the sanitisation of every string class that reaches the terminal from outside: JSON strings through the accessor, HTML text/attribute data as the parser can deliver it (any scalar), raw response bytes quoted in error items, and a control character under any JSON key the code reads (keys discovered from the current source) in any value shape; one oracle (no C0/DEL/C1 outside servitor's own SGR sequences) decided over all byte/rune values within the bound.", "5/C01"),
 "C02": ("Bounded symbolic model checking of client.FetchUnknown over a scripted multi-origin world: every object it returns under an id must have been served (after redirects) by the host the id names - generated objects carry a tag and the harness knows which origin really served each; id claims include URLs whose address and port digits are solver variables, so 'same host' is decided by SMT. Replayed against real TLS servers on loopback.", "5/C02"),
 "C03": ("Bounded symbolic model checking of jtp.Get over a scripted network world: a general response (symbolic status digits, header sets, bodies) is classified against a reference written from the statement, redirects are followed within the budget and resolved against the issuing URL, and sequences of fetches over redirect graphs with small caches must return what each fetch returns on its own. Counterexamples are replayed against real TLS servers on loopback.", "5/C03"),
 "C04": ("Bounded symbolic model checking of the bytes servitor writes: URLs with arbitrary ASCII bytes in path, authority, scheme and userinfo positions go through url.Parse and jtp.Get; every connection must carry exactly one write consisting of the request line, Host and Accept (four CR LF), go to the URL's host and port over TLS, and never be opened for a non-https URL.", "5/C04"),
 "C05": ("Bounded symbolic model checking of fault handling in jtp.Get: refused connections, a cut or a stall after every byte position k of the response (k symbolic), trickling and silent peers, at either hop of a redirect; the fetch must end in an error (or the complete document if everything needed had arrived), within a bounded virtual time, and a read on a silent peer without a deadline is reported as a hang.", "5/C05"),
 "C06": ("Bounded symbolic model checking of crash-freedom: the real constructors and every item method run on well-formed base objects in which one key is dropped or replaced by an arbitrary JSON value (symbolic booleans and doubles, candidate strings, lists, objects), at negative, zero and positive widths and for every 64-bit link number; every reachable panic is a violation; minimal objects with an arbitrary value under any key the code reads (keys discovered from the current source); paging over cyclic and endlessly empty page chains must return (step-budget exhaustion is a violation). The 'promptly' half for deep nesting of the statement is outside this technique (DESIGN 8).", "5/C06"),
 "C07": ("Bounded symbolic model checking of ui.Update against a reference model of the documented keymap: every byte value for each key of short sequences over thread, list and empty pages, and one key from arbitrary states including over-long selection numbers; mode, buffer, history position and highlighted item must match after background loads settle, and no key may panic.", "5/C07"),
 "C08": ("Bounded model checking of schedules: the engine owns the scheduler, explores every order in which the event goroutines (keys, resizes, open/feed subcommands) and the loaders they start can acquire the UI lock, and checks every explored schedule with a vector-clock happens-before monitor over all loads and stores (UI state, the frame log behind the output callback, the fan-out results); a goroutine blocked for ever is a deadlock. Races are confirmed natively by the Go race detector.", "2 (Goroutines), 5/C08"),
 "C09": ("Bounded symbolic model checking of the outbox, replies and author filters: the real constructors run against a scripted two-host world whose entries are legitimate or one of several impostor kinds; every entry must appear in its position, as a genuine item exactly when the generator's ground truth says so (including an actor URL with symbolic address/port digits).", "5/C09"),
 "C10": ("Bounded symbolic model checking of pub.Collection.Harvest through its continuations: symbolic page chains (embedded pages, empty pages, failing and ill-typed links, cycles), symbolic request sizes and start offset; delivered items must be the true sequence in order, a short answer or an error item must be justified by the end of the chain, a failing page or more than three consecutive empty pages.", "5/C10"),
 "C11": ("Bounded symbolic model checking of splicer.Splicer.Harvest over synthetic sources with symbolic timestamps and request sizes: every emitted item must be the next item of its source and a newest head (ties to the first source), answers are repeatable, a short answer means every source is exhausted, and the continuation is either empty or usable.", "5/C11"),
 "C12": ("Bounded symbolic model checking of link numbering: symbolic tree shapes over link-bearing and wrapper elements (harness-built html.Node graphs) at symbolic widths, and whole posts/profiles built by the real constructors from JSON with attachments; the numbers parsed by the terminal model must be exactly 1..N and SelectLink(k), for every 64-bit k, must open the target labelled k or nothing.", "5/C12"),
 "C13": ("Bounded symbolic model checking of ansi.Wrap/DumbWrap/Pad/Indent/Snip/SetLength on styled text built with the real ansi.Apply from symbolic characters, judged by an independent terminal model (cells with active SGR parameters): width, content and order preservation, kept line breaks, word-breaking rule, prefix+ellipsis shape.", "5/C13"),
 "C14": ("Bounded symbolic model checking of the style layer: compositions and concatenations of all style functions over symbolic characters, followed by a layout operation; the terminal model must report for every character exactly the parameter multiset computed from the expression, and an empty active set at every line end.", "5/C14"),
 "C15": ("Bounded symbolic model checking of rendered width for HTML trees, plain text and gemtext with symbolic text and width, plus an inductive cache lemma for all three Markup types with unconstrained 64-bit widths (Render equals the cache-free rendering and re-establishes the cache invariant from any state).", "5/C15"),
 "C16": ("Bounded symbolic model checking of the frame geometry (ansi.CenterVertically, ReplaceLastLine): every byte of the three strings and the height are solver variables; frame height and centring are decided by SMT for all strings within the bound.", "5/C16"),
 "C17": ("Bounded symbolic model checking of the typed accessors: the JSON kind, every finite double, every string of a few Unicode scalars and the parsers' verdicts are solver variables; classification, sanitisation and exact numeric value are asserted against a reference written from the statement.", "5/C17"),
 "C18": ("Bounded symbolic model checking of history.History[int] and feed.Feed against list/cursor reference models: operation sequences from the constructors and one inductive step from an arbitrary well-formed state.", "5/C18"),
 "C19": ("Bounded symbolic model checking of the colour converter: every string of up to 8 bytes (hence every 6-digit colour) with all bytes symbolic; acceptance and the decimal components are decided by SMT; validation of preload, timeout, cache size (any 64-bit integers) and hook, followed by the consumers - including jtp's real package initialiser run again with the candidate cache size, confirmed natively by a child process started with that configuration. TOML syntax and unknown keys are outside what this technique reaches (DESIGN 8).", "5/C19"),
 "C20": ("Bounded symbolic model checking of ui.openExternally: hook arguments, link and media type are symbolic byte strings; exec is a recording stub under the engine and a dump program natively; argument-wise substitution, untouched program name and the stdin fallback are asserted.", "5/C20"),
}
reasons={}
checks=[]
for pid in sorted(claimed):
    text,ref=claimed[pid]
    checks.append({
     "property_id":pid,
     "quick_cmd":f"./check {pid} quick",
     "thorough_cmd":f"./check {pid} thorough",
     "evidence_file":f"/verif/evidence/{pid}.json",
     "replay_cmd_template":"./check --replay {path}",
     "engine":"gosym",
     "level_claimed":{"category":"model_checking","text":text,"design_ref":ref},
     "level_note":NOTE,
     "technique":TECH})
na=[{"property_id":p['id'],"reason":reasons.get(p['id'],"no check registered yet: the solver-based harness for this property (DESIGN.md section 4) has not been brought to a clean run")} for p in props if p['id'] not in claimed]
m={
 "version":1,
 "setup_cmd":"cd /verif/engine && GOFLAGS=-mod=mod GOPROXY=off GOSUMDB=off GOTOOLCHAIN=local go build -o ../bin/gosym . && ../bin/gosym selftest",
 "hooks":{"guard":"verif","enable":"harness files (//go:build verif) and package servitor/verifrt are injected by overlay at check time (go/packages Overlay and go test -overlay -tags verif); nothing is added to /repo","baseline_off_cmd":"cd /repo && GOFLAGS=-mod=mod GOPROXY=off go test -vet=off -count=1 ./...","source_commits":[],"add_only":True},
 "engines":[{"name":"gosym","path":"/verif/engine","serves_properties":sorted(claimed),"kind_free_text":"symbolic interpreter for go/ssa (x/tools v0.29.0) with SMT-LIB2 back end (z3 -in), stateless DFS by re-execution, native replay"}],
 "checks":checks,
 "not_applicable":na,
 "notes":"See DESIGN.md. Exit 0 = held within the stated bounds; exit 1 + VIOLATION line = counterexample reproduced natively; exit 2 = the check itself is incomplete (unknown/unsupported/vacuous) and claims nothing."
}
json.dump(m,open('/verif/MANIFEST.json','w'),indent=1)
print("claimed:",sorted(claimed))
