#!/bin/bash
# tools/seed_eval.sh <worktree> <property> <mutant-dir-name>
# Confirms a seeded change in its scratch worktree (suite passes, demo fails
# with it and passes without) and runs the property's quick check against the
# worktree with the change applied (GOSYM_REPO=<worktree>).
set -u
export GOFLAGS=-mod=mod GOPROXY=off GOSUMDB=off GOTOOLCHAIN=local
wt=$1; prop=$2; m=$3
src=$wt/_seed/$m
dest=/verif/seeded/${prop}_$m
mkdir -p $dest
cp $src/patch.diff $dest/patch.diff
cp $src/demo_test.go.txt $dest/demo_test.go.txt
target=$(python3 - $src/demo_test.go.txt <<'PY'
import re,sys
head=open(sys.argv[1]).read()[:1500]
m=re.search(r'([a-z]+)/([A-Za-z0-9_]+_test\.go)',head)
if m: print(m.group(1)+'/'+m.group(2)); sys.exit()
f=re.search(r'([A-Za-z0-9_]+_test\.go)',head).group(1)
d=re.search(r'(?:directory|into|in)\s+`?([a-z]+)/',head) or re.search(r'^package\s+([a-z]+)',open(sys.argv[1]).read(),re.M)
print(d.group(1)+'/'+f)
PY
)
pkgdir=$(dirname $target)
cd $wt
git checkout -q -- . 2>/dev/null
log=$dest/confirm.log; : > $log
ok=1
git apply $src/patch.diff || { echo "patch does not apply" >> $log; ok=0; }
go build ./... >> $log 2>&1 || { echo "build fails with patch" >> $log; ok=0; }
suite=$(go test -vet=off -count=1 ./... 2>&1 | grep -E "^(FAIL|---)" | grep -v "jtp" | grep -v "TestBasic\|TestRedirect" | grep -v "^FAIL$")
[ -n "$suite" ] && { echo "suite fails with patch: $suite" >> $log; ok=0; }
cp $src/demo_test.go.txt $target
names=$(grep -oE "^func (Test[A-Za-z0-9_]+)" $src/demo_test.go.txt | awk '{print $2}' | paste -sd'|')
race=""; head -5 $src/demo_test.go.txt | grep -q -- "-race" && race="-race"
if go test $race -vet=off -count=1 -run "^($names)\$" ./$pkgdir > $dest/demo_with_patch.log 2>&1; then echo "demo passes WITH patch (should fail)" >> $log; ok=0; fi
git checkout -q -- .
if ! go test $race -vet=off -count=1 -run "^($names)\$" ./$pkgdir > $dest/demo_without_patch.log 2>&1; then echo "demo fails WITHOUT patch (should pass)" >> $log; ok=0; fi
rm -f $target
# run the check against the worktree with the patch applied
git apply $src/patch.diff
cd /verif
GOSYM_REPO=$wt timeout 1500 ./bin/gosym check $prop quick > $dest/check_quick.log 2>&1
code=$?
git -C $wt checkout -q -- .
caught=false; [ $code -eq 1 ] && grep -q "^VIOLATION property=$prop" $dest/check_quick.log && caught=true
labels=$(grep -oE "label=[a-zA-Z0-9._-]+" $dest/check_quick.log | sort -u | tr '\n' ' ')
python3 - "$src/meta.json" "$dest/meta.json" "$ok" "$caught" "$code" "$labels" <<'PY'
import json,sys
m=json.load(open(sys.argv[1]))
m['confirmed_in_scratch_worktree']= sys.argv[3]=='1'
m['caught_by_quick_check']= sys.argv[4]=='true'
m['check_exit_code']=int(sys.argv[5])
m['violated_labels']=sys.argv[6].split()
m['how_checked']="patch applied in the scratch worktree; suite run; demo run with and without; then `GOSYM_REPO=<worktree> gosym check <property> quick` with the patch applied (same as applying it to /repo and running ./check)"
json.dump(m,open(sys.argv[2],'w'),indent=1)
PY
echo "$prop $m confirmed=$ok caught=$caught exit=$code $labels"
