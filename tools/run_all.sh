#!/bin/bash
# tools/run_all.sh <tier> : runs every registered check, one summary line each
tier=${1:-quick}
cd /verif
for id in $(python3 -c "import json;print(' '.join(c['property_id'] for c in json.load(open('MANIFEST.json'))['checks']))"); do
  s=$(date +%s)
  out=$(timeout ${RUN_ALL_TIMEOUT:-3600} ./check $id $tier 2>&1); code=$?
  e=$(( $(date +%s) - s ))
  echo "$id exit=$code ${e}s :: $(echo "$out" | grep -E "^$id $tier:" | cut -c1-200)"
  echo "$out" | grep -E "^(VIOLATION|CHECK-PROBLEM|KNOWN-FINDING|INCONCLUSIVE)" | head -5
done
