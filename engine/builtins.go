package main

import (
	"fmt"
	"go/types"

	"golang.org/x/tools/go/ssa"
)

var classToSize = []int{0, 8, 16, 24, 32, 48, 64, 80, 96, 112, 128, 144, 160, 176, 192, 208, 224, 240, 256, 288, 320, 352, 384, 416, 448, 480, 512, 576, 640, 704, 768, 896, 1024, 1152, 1280, 1408, 1536, 1792, 2048, 2304, 2688, 3072, 3200, 3456, 4096, 4864, 5376, 6144, 6528, 6784, 6912, 8192, 9472, 9728, 10240, 10880, 12288, 13568, 14336, 16384, 18432, 19072, 20480, 21760, 24576, 27264, 28672, 32768}

func roundupsize(size int, noscan bool) int {
	req := size
	if req <= 32768-8 {
		if !noscan && req > 512 {
			req += 8
		}
		for _, c := range classToSize {
			if c >= req {
				return c - (req - size)
			}
		}
	}
	req += 8192 - 1
	return req &^ (8192 - 1)
}

func hasPointers(t types.Type) bool {
	switch u := t.Underlying().(type) {
	case *types.Basic:
		return u.Kind() == types.String || u.Kind() == types.UnsafePointer
	case *types.Struct:
		for i := 0; i < u.NumFields(); i++ {
			if hasPointers(u.Field(i).Type()) {
				return true
			}
		}
		return false
	case *types.Array:
		return u.Len() > 0 && hasPointers(u.Elem())
	}
	return true
}

// growCap mirrors runtime.growslice's capacity computation (Go 1.22/1.23).
func (p *Program) growCap(oldCap, newLen int, elem types.Type) int {
	newcap := oldCap
	doublecap := newcap + newcap
	if newLen > doublecap {
		newcap = newLen
	} else if oldCap < 256 {
		newcap = doublecap
	} else {
		for {
			newcap += (newcap + 3*256) >> 2
			if uint(newcap) >= uint(newLen) {
				break
			}
		}
	}
	es := int(p.sizes.Sizeof(elem))
	if es == 0 {
		return newcap
	}
	mem := roundupsize(newcap*es, !hasPointers(elem))
	return mem / es
}

func (in *Interp) callBuiltin(fr *frame, fn *ssa.Builtin, args []Value) Value {
	switch fn.Name() {
	case "append":
		if len(args) == 1 {
			return args[0]
		}
		s := args[0].(Slice)
		var add []Value
		switch a := args[1].(type) {
		case Str:
			add = strToValues(a)
		case Slice:
			add = a.B[:a.L]
		}
		if len(add) == 0 {
			return s
		}
		newLen := s.L + len(add)
		if newLen <= len(s.B) {
			b := s.B[:newLen]
			for i, v := range add {
				b[s.L+i] = copyVal(v)
			}
			return Slice{B: s.B, L: newLen}
		}
		elem := fn.Type().(*types.Signature).Params().At(0).Type().Underlying().(*types.Slice).Elem()
		nc := in.P.growCap(len(s.B), newLen, elem)
		if nc < newLen {
			nc = newLen
		}
		b := make([]Value, nc)
		for i := 0; i < s.L; i++ {
			b[i] = s.B[i]
		}
		for i, v := range add {
			b[s.L+i] = copyVal(v)
		}
		for i := newLen; i < nc; i++ {
			b[i] = zero(elem)
		}
		return Slice{B: b, L: newLen}
	case "copy":
		dst := args[0].(Slice)
		var src []Value
		switch a := args[1].(type) {
		case Str:
			src = strToValues(a)
		case Slice:
			src = a.B[:a.L]
		}
		n := dst.L
		if len(src) < n {
			n = len(src)
		}
		// overlapping copies: go's copy is memmove
		tmp := make([]Value, n)
		for i := 0; i < n; i++ {
			tmp[i] = copyVal(src[i])
		}
		copy(dst.B[:n], tmp)
		return mkInt64(int64(n))
	case "len":
		switch x := args[0].(type) {
		case Str:
			return mkInt64(int64(len(x.S)))
		case Slice:
			return mkInt64(int64(x.L))
		case *Map:
			if x == nil {
				return mkInt64(0)
			}
			return mkInt64(int64(x.n))
		case Array:
			return mkInt64(int64(len(x)))
		case Ptr:
			return mkInt64(int64(len((*x).(Array))))
		case nil:
			return mkInt64(0)
		}
	case "cap":
		switch x := args[0].(type) {
		case Slice:
			return mkInt64(int64(len(x.B)))
		case Array:
			return mkInt64(int64(len(x)))
		case Ptr:
			return mkInt64(int64(len((*x).(Array))))
		}
	case "delete":
		m := args[0].(*Map)
		if m != nil {
			in.mapDelete(fr, m, args[1])
		}
		return nil
	case "clear":
		switch x := args[0].(type) {
		case *Map:
			if x != nil {
				for _, e := range x.order {
					e.deleted = true
				}
				x.idx = map[any]*mapEntry{}
				x.n = 0
			}
		default:
			in.unsupported("clear on slice")
		}
		return nil
	case "print", "println":
		return nil
	case "panic":
		panic(&targetPanic{v: args[0], msg: in.panicMessage(args[0]), site: fr.servitorSite()})
	case "recover":
		return in.doRecover(fr)
	case "min", "max":
		acc := args[0]
		for _, a := range args[1:] {
			var less Value
			sig := fn.Type().(*types.Signature)
			t := sig.Params().At(0).Type()
			if fn.Name() == "min" {
				less = in.binop(fr, tokenLSS, t, a, acc)
			} else {
				less = in.binop(fr, tokenLSS, t, acc, a)
			}
			if in.truth(less.(SBool)) {
				acc = a
			}
		}
		return acc
	case "String": // unsafe.String(ptr *byte, len)
		n := int(in.concInt(fr, args[1], "unsafe.String len"))
		p := args[0].(Ptr)
		if n == 0 {
			return Str{}
		}
		if b, ok := in.sliceData[p]; ok && n <= len(b) {
			return in.bytesToStr(b[:n])
		}
		in.unsupported("unsafe.String of unknown pointer")
	case "StringData":
		s := args[0].(Str)
		b := strToValues(s)
		if len(b) == 0 {
			return Ptr(nil)
		}
		p := Ptr(&b[0])
		in.sliceData[p] = b
		return p
	case "SliceData":
		s := args[0].(Slice)
		if len(s.B) == 0 {
			return Ptr(nil)
		}
		p := Ptr(&s.B[0])
		in.sliceData[p] = s.B
		return p
	case "Slice": // unsafe.Slice(ptr, len)
		n := int(in.concInt(fr, args[1], "unsafe.Slice len"))
		p := args[0].(Ptr)
		if p == nil {
			return Slice{}
		}
		if b, ok := in.sliceData[p]; ok && n <= len(b) {
			return Slice{B: b[:n:n], L: n}
		}
		in.unsupported("unsafe.Slice of unknown pointer")
	case "ssa:wrapnilchk":
		recv := args[0]
		if p, ok := recv.(Ptr); ok && p == nil {
			in.throw(fr, "value method called using nil pointer")
		}
		return recv
	}
	in.unsupported("builtin " + fn.Name())
	return nil
}

func (in *Interp) doRecover(fr *frame) Value {
	// recover() is effective only when called directly by a deferred function
	// of a panicking frame.
	caller := fr.caller
	if caller == nil || !caller.panicking {
		return Iface{}
	}
	caller.panicking = false
	p := caller.panic
	caller.panic = nil
	switch p := p.(type) {
	case *targetPanic:
		if f, ok := p.v.(Iface); ok {
			return f
		}
		return Iface{T: types.Typ[types.String], V: Str{S: fmt.Sprint(p.msg)}}
	}
	return Iface{T: types.Typ[types.String], V: Str{S: fmt.Sprint(p)}}
}
