package main

// Native replay: the harness functions are compiled with the ordinary Go
// toolchain (tag verif, same overlay) and run on solver models.

import (
	"bufio"
	"bytes"
	"encoding/json"
	"fmt"
	"os"
	"os/exec"
	"path/filepath"
	"sort"
	"strings"
	"syscall"

	"golang.org/x/tools/go/ssa"
)

type ReplayModel struct {
	ID      int               `json:"id"`
	Harness string            `json:"harness"`
	Vars    map[string]uint64 `json:"vars"`
	Params  map[string]int    `json:"params"`
	Lists   map[string][]string `json:"lists,omitempty"`
	Timeout int               `json:"timeout_ms,omitempty"`
}

type ReplayResult struct {
	ID      int      `json:"id"`
	Outcome string   `json:"outcome"`
	Label   string   `json:"label"`
	Msg     string   `json:"msg"`
	Obs     []string `json:"obs"`
}

type Replayer struct {
	ld      *Loaded
	scratch string
	bins    map[string]string // pkg import path -> test binary
	race    bool
}

func newReplayer(ld *Loaded) (*Replayer, error) {
	d, err := os.MkdirTemp("", "gosym-replay-")
	if err != nil {
		return nil, err
	}
	return &Replayer{ld: ld, scratch: d, bins: map[string]string{}}, nil
}

func (r *Replayer) Close() { os.RemoveAll(r.scratch) }

func goEnv(extra ...string) []string {
	env := []string{}
	for _, e := range os.Environ() {
		if strings.HasPrefix(e, "GOFLAGS=") {
			continue
		}
		strip := false
		for _, x := range extra {
			if i := strings.IndexByte(x, '='); i > 0 && strings.HasPrefix(e, x[:i+1]) {
				strip = true
			}
		}
		if !strip {
			env = append(env, e)
		}
	}
	env = append(env, "GOFLAGS=-mod=mod", "GOPROXY=off", "GOSUMDB=off", "GOTOOLCHAIN=local")
	return append(env, extra...)
}

// build compiles the test binary of one servitor package with the harness
// overlay plus a generated replay test.
func (r *Replayer) build(pkgPath string) (string, error) {
	if b, ok := r.bins[pkgPath]; ok {
		return b, nil
	}
	pkg := r.ld.P.prog.ImportedPackage(pkgPath)
	if pkg == nil {
		return "", fmt.Errorf("package %s not loaded", pkgPath)
	}
	rel := strings.TrimPrefix(strings.TrimPrefix(pkgPath, "servitor"), "/")
	if rel == "" {
		rel = "."
	}
	var names []string
	for name, m := range pkg.Members {
		if f, ok := m.(*ssa.Function); ok && strings.HasPrefix(name, "Verif") && f.Signature.Params().Len() == 0 && f.Signature.Results().Len() == 0 {
			names = append(names, name)
		}
	}
	sort.Strings(names)
	var sb strings.Builder
	fmt.Fprintf(&sb, "//go:build verif\n\npackage %s\n\nimport (\n\t\"servitor/verifrt\"\n\t\"testing\"\n)\n\n", pkg.Pkg.Name())
	sb.WriteString("func TestVerifReplay(t *testing.T) {\n\tverifrt.ReplayMain(t, map[string]func(){\n")
	for _, n := range names {
		fmt.Fprintf(&sb, "\t\t%q: %s,\n", n, n)
	}
	sb.WriteString("\t})\n}\n")
	tag := strings.ReplaceAll(rel, "/", "_")
	testFile := filepath.Join(r.scratch, "replay_"+tag+"_test.go")
	if err := os.WriteFile(testFile, []byte(sb.String()), 0o644); err != nil {
		return "", err
	}
	ov := map[string]string{}
	for virt, real := range r.ld.overlayFiles {
		ov[virt] = real
	}
	ov[filepath.Join(repoDir, rel, "zz_verif_replay_test.go")] = testFile
	ovb, _ := json.Marshal(map[string]any{"Replace": ov})
	ovFile := filepath.Join(r.scratch, "overlay_"+tag+".json")
	if err := os.WriteFile(ovFile, ovb, 0o644); err != nil {
		return "", err
	}
	bin := filepath.Join(r.scratch, tag+".test")
	args := []string{"test", "-tags", "verif", "-vet=off", "-overlay", ovFile, "-c", "-o", bin}
	if r.race {
		args = append(args, "-race")
	}
	args = append(args, "./"+rel)
	cmd := exec.Command("go", args...)
	cmd.Dir = repoDir
	cmd.Env = goEnv()
	out, err := cmd.CombinedOutput()
	if err != nil {
		return "", fmt.Errorf("go test -c %s: %v\n%s", rel, err, out)
	}
	r.bins[pkgPath] = bin
	return bin, nil
}

func pkgOfHarness(fn string) string {
	i := strings.LastIndex(fn, ".")
	return fn[:i]
}

// run executes models (all for harnesses of one package) natively.
func (r *Replayer) run(pkgPath string, models []ReplayModel) (map[int]ReplayResult, error) {
	bin, err := r.build(pkgPath)
	if err != nil {
		return nil, err
	}
	// native replays of different checks must not run at the same time: the
	// loopback network world listens on fixed ports
	if lock, err := os.OpenFile(filepath.Join(os.TempDir(), "gosym-native-replay.lock"), os.O_CREATE|os.O_RDWR, 0o666); err == nil {
		syscall.Flock(int(lock.Fd()), syscall.LOCK_EX)
		defer func() {
			syscall.Flock(int(lock.Fd()), syscall.LOCK_UN)
			lock.Close()
		}()
	}
	results := map[int]ReplayResult{}
	rest := models
	home := filepath.Join(r.scratch, "home")
	os.MkdirAll(home, 0o755)
	for round := 0; len(rest) > 0; round++ {
		inF := filepath.Join(r.scratch, fmt.Sprintf("models_%d.jsonl", round))
		outF := filepath.Join(r.scratch, fmt.Sprintf("results_%d.jsonl", round))
		var buf bytes.Buffer
		for _, m := range rest {
			b, _ := json.Marshal(m)
			buf.Write(b)
			buf.WriteByte('\n')
		}
		os.WriteFile(inF, buf.Bytes(), 0o644)
		os.Remove(outF)
		cmd := exec.Command(bin, "-test.run", "^TestVerifReplay$", "-test.timeout", "30m")
		cmd.Dir = filepath.Join(repoDir, strings.TrimPrefix(strings.TrimPrefix(pkgPath, "servitor"), "/"))
		cmd.Env = goEnv("VERIF_MODELS="+inF, "VERIF_OUT="+outF, "HOME="+home, "XDG_CONFIG_HOME="+home, "GORACE=halt_on_error=1")
		out, runErr := cmd.CombinedOutput()
		n := 0
		if f, err := os.Open(outF); err == nil {
			sc := bufio.NewScanner(f)
			sc.Buffer(make([]byte, 1<<20), 1<<26)
			for sc.Scan() {
				var rr ReplayResult
				if json.Unmarshal(sc.Bytes(), &rr) == nil {
					results[rr.ID] = rr
					n++
				}
			}
			f.Close()
		}
		if n >= len(rest) {
			break
		}
		// the process died while running rest[n]
		tail := string(out)
		if len(tail) > 1500 {
			tail = tail[len(tail)-1500:]
		}
		results[rest[n].ID] = ReplayResult{ID: rest[n].ID, Outcome: "crash", Msg: fmt.Sprintf("%v: %s", runErr, firstPanicLine(string(out))) + "\n" + tail}
		rest = rest[n+1:]
	}
	return results, nil
}

func firstPanicLine(out string) string {
	for _, l := range strings.Split(out, "\n") {
		if strings.HasPrefix(l, "panic:") || strings.HasPrefix(l, "fatal error:") || strings.Contains(l, "DATA RACE") {
			return l
		}
	}
	return ""
}
