package main

// Interpreter values. Scalars carry either a concrete value or a term.

import (
	"fmt"
	"go/types"
	"sort"
	"strconv"
	"strings"

	"golang.org/x/tools/go/ssa"
)

type Value interface{}

type SInt struct {
	W uint8 // 8, 16, 32, 64
	V uint64
	T *Term
}

type SBool struct {
	V bool
	T *Term
}

type SFloat struct {
	V float64
	T *Term
	W uint8 // 32 or 64
}

// Str is an immutable string; Sym is nil or has len(S) entries, a non-nil
// entry making that byte symbolic (SoBV8).
type Str struct {
	S   string
	Sym []*Term
}

type Struct []Value
type Array []Value

// Slice: B is the backing window starting at the slice's first element,
// len(B) is the capacity, L the length. A nil slice has B == nil.
type Slice struct {
	B []Value
	L int
}

type Ptr = *Value

type Iface struct {
	T types.Type
	V Value
}

type Tuple []Value

type Closure struct {
	Fn  *ssa.Function
	Env []Value
}

// Native is an opaque handle to a native Go object (regexp, goldmark, ...).
type Native struct{ X any }

// UnsafePtr models the few unsafe.Pointer round trips the interpreted
// library code performs.
type UnsafePtr struct {
	P   Ptr
	Str *Str // StringData result
}

type mapEntry struct {
	k, v    Value
	deleted bool
}

type Map struct {
	kt      types.Type
	traced  bool // lookups by constant string key are recorded (verifrt.TraceKeys)
	raceCell Value // stands for the map object in the race monitor (Go's detector treats map operations as reads/writes of the map)
	idx     map[any]*mapEntry
	order   []*mapEntry
	n       int
}

func (s Str) IsConcrete() bool {
	if s.Sym == nil {
		return true
	}
	for _, t := range s.Sym {
		if t != nil {
			return false
		}
	}
	return true
}

func (s Str) norm() Str {
	if s.Sym != nil && s.IsConcrete() {
		s.Sym = nil
	}
	return s
}

func (s Str) sliceStr(i, j int) Str {
	r := Str{S: s.S[i:j]}
	if s.Sym != nil {
		r.Sym = s.Sym[i:j]
	}
	return r.norm()
}

func concatStr(a, b Str) Str {
	if a.Sym == nil && b.Sym == nil {
		return Str{S: a.S + b.S}
	}
	if len(a.S) == 0 {
		return b
	}
	if len(b.S) == 0 {
		return a
	}
	sym := make([]*Term, len(a.S)+len(b.S))
	if a.Sym != nil {
		copy(sym, a.Sym)
	}
	if b.Sym != nil {
		copy(sym[len(a.S):], b.Sym)
	}
	return Str{S: a.S + b.S, Sym: sym}
}

func mkInt(w uint, v uint64) SInt { return SInt{W: uint8(w), V: v & mask(w)} }
func mkInt64(v int64) SInt        { return SInt{W: 64, V: uint64(v)} }

func (x SInt) Signed() int64 { return sext(x.V, uint(x.W)) }

func intWidth(t types.Type) (w uint, signed bool, ok bool) {
	b, isB := t.Underlying().(*types.Basic)
	if !isB {
		return 0, false, false
	}
	switch b.Kind() {
	case types.Int, types.Int64, types.UntypedInt:
		return 64, true, true
	case types.Int8:
		return 8, true, true
	case types.Int16:
		return 16, true, true
	case types.Int32, types.UntypedRune:
		return 32, true, true
	case types.Uint, types.Uint64, types.Uintptr:
		return 64, false, true
	case types.Uint8:
		return 8, false, true
	case types.Uint16:
		return 16, false, true
	case types.Uint32:
		return 32, false, true
	}
	return 0, false, false
}

func isFloatType(t types.Type) bool {
	b, ok := t.Underlying().(*types.Basic)
	return ok && b.Info()&types.IsFloat != 0
}
func isStringType(t types.Type) bool {
	b, ok := t.Underlying().(*types.Basic)
	return ok && b.Info()&types.IsString != 0
}
func isBoolType(t types.Type) bool {
	b, ok := t.Underlying().(*types.Basic)
	return ok && b.Info()&types.IsBoolean != 0
}

func zero(t types.Type) Value {
	switch u := t.Underlying().(type) {
	case *types.Basic:
		if w, _, ok := intWidth(u); ok {
			return SInt{W: uint8(w)}
		}
		switch {
		case u.Kind() == types.UnsafePointer:
			return UnsafePtr{}
		case u.Info()&types.IsBoolean != 0:
			return SBool{}
		case u.Info()&types.IsFloat != 0:
			if u.Kind() == types.Float32 {
				return SFloat{W: 32}
			}
			return SFloat{W: 64}
		case u.Info()&types.IsString != 0:
			return Str{}
		case u.Kind() == types.UntypedNil:
			return nil
		}
		panic(fmt.Sprintf("zero: basic %v", u))
	case *types.Pointer:
		return Ptr(nil)
	case *types.Struct:
		s := make(Struct, u.NumFields())
		for i := range s {
			s[i] = zero(u.Field(i).Type())
		}
		return s
	case *types.Array:
		a := make(Array, u.Len())
		for i := range a {
			a[i] = zero(u.Elem())
		}
		return a
	case *types.Slice:
		return Slice{}
	case *types.Map:
		return (*Map)(nil)
	case *types.Interface:
		return Iface{}
	case *types.Signature:
		return (*ssa.Function)(nil)
	case *types.Chan:
		return nil
	case *types.Tuple:
		tu := make(Tuple, u.Len())
		for i := range tu {
			tu[i] = zero(u.At(i).Type())
		}
		return tu
	}
	panic(fmt.Sprintf("zero: %T %v", t, t))
}

func copyVal(v Value) Value {
	switch v := v.(type) {
	case Struct:
		c := make(Struct, len(v))
		for i, f := range v {
			c[i] = copyVal(f)
		}
		return c
	case Array:
		c := make(Array, len(v))
		for i, f := range v {
			c[i] = copyVal(f)
		}
		return c
	}
	return v
}

// ---- maps

func newMap(kt types.Type) *Map {
	return &Map{kt: kt, idx: map[any]*mapEntry{}}
}

// concreteKey returns a comparable Go value identifying v, or ok=false if v
// has symbolic parts.
func concreteKey(v Value) (any, bool) {
	switch v := v.(type) {
	case SInt:
		if v.T != nil {
			return nil, false
		}
		return [2]uint64{uint64(v.W), v.V}, true
	case SBool:
		if v.T != nil {
			return nil, false
		}
		return v.V, true
	case SFloat:
		if v.T != nil {
			return nil, false
		}
		return v.V, true
	case Str:
		if !v.IsConcrete() {
			return nil, false
		}
		return v.S, true
	case Ptr:
		return v, true
	case Native:
		return v.X, true
	case Iface:
		if v.T == nil {
			return "<niliface>", true
		}
		k, ok := concreteKey(v.V)
		if !ok {
			return nil, false
		}
		return fmt.Sprintf("%s|%v", v.T.String(), k), true
	case Struct:
		var sb strings.Builder
		for _, f := range v {
			k, ok := concreteKey(f)
			if !ok {
				return nil, false
			}
			fmt.Fprintf(&sb, "%v;", k)
		}
		return "S{" + sb.String() + "}", true
	case Array:
		var sb strings.Builder
		for _, f := range v {
			k, ok := concreteKey(f)
			if !ok {
				return nil, false
			}
			fmt.Fprintf(&sb, "%v;", k)
		}
		return "A{" + sb.String() + "}", true
	case *Map:
		return v, true
	case nil:
		return "<nil>", true
	}
	return nil, false
}

func (m *Map) liveEntries() []*mapEntry {
	out := make([]*mapEntry, 0, m.n)
	for _, e := range m.order {
		if !e.deleted {
			out = append(out, e)
		}
	}
	return out
}

// sortedEntries gives a deterministic iteration order (Go's is random; code
// whose result depends on it is outside what a run can claim anyway).
func (m *Map) sortedEntries() []*mapEntry {
	es := m.liveEntries()
	allStr := true
	for _, e := range es {
		if s, ok := e.k.(Str); !ok || !s.IsConcrete() {
			allStr = false
			break
		}
	}
	if allStr {
		sort.SliceStable(es, func(i, j int) bool { return es[i].k.(Str).S < es[j].k.(Str).S })
	}
	return es
}

// ---- printing (diagnostics and Observe)

func showValue(v Value, m Model, depth int) string {
	if depth > 6 {
		return "..."
	}
	switch v := v.(type) {
	case nil:
		return "nil"
	case SInt:
		if v.T != nil {
			if m != nil {
				return fmt.Sprintf("%d", m.Eval(v.T))
			}
			return fmt.Sprintf("<sym%d>", v.W)
		}
		return fmt.Sprintf("%d", v.V)
	case SBool:
		if v.T != nil {
			if m != nil {
				return fmt.Sprintf("%v", m.Eval(v.T) != 0)
			}
			return "<symbool>"
		}
		return fmt.Sprintf("%v", v.V)
	case SFloat:
		if v.T != nil {
			return "<symfloat>"
		}
		return fmt.Sprintf("%v", v.V)
	case Str:
		return fmt.Sprintf("%q", concretizeStr(v, m))
	case Struct:
		parts := []string{}
		for _, f := range v {
			parts = append(parts, showValue(f, m, depth+1))
		}
		return "{" + strings.Join(parts, " ") + "}"
	case Array:
		parts := []string{}
		for _, f := range v {
			parts = append(parts, showValue(f, m, depth+1))
		}
		return "[" + strings.Join(parts, " ") + "]"
	case Slice:
		if v.B == nil {
			return "[]nil"
		}
		parts := []string{}
		for i := 0; i < v.L; i++ {
			parts = append(parts, showValue(v.B[i], m, depth+1))
		}
		return "[" + strings.Join(parts, " ") + "]"
	case Ptr:
		if v == nil {
			return "nilptr"
		}
		return "&" + showValue(*v, m, depth+1)
	case Iface:
		if v.T == nil {
			return "nil"
		}
		return fmt.Sprintf("(%s)%s", v.T, showValue(v.V, m, depth+1))
	case Tuple:
		parts := []string{}
		for _, f := range v {
			parts = append(parts, showValue(f, m, depth+1))
		}
		return "(" + strings.Join(parts, ", ") + ")"
	case *Map:
		if v == nil {
			return "map[nil]"
		}
		parts := []string{}
		for _, e := range v.sortedEntries() {
			parts = append(parts, showValue(e.k, m, depth+1)+":"+showValue(e.v, m, depth+1))
		}
		return "map[" + strings.Join(parts, " ") + "]"
	case *ssa.Function:
		if v == nil {
			return "nilfunc"
		}
		return v.String()
	case *Closure:
		return "closure:" + v.Fn.String()
	case Native:
		return fmt.Sprintf("native(%T)", v.X)
	}
	return fmt.Sprintf("%T", v)
}

func concretizeStr(s Str, m Model) string {
	if s.Sym == nil {
		return s.S
	}
	b := []byte(s.S)
	for i, t := range s.Sym {
		if t != nil {
			if m != nil {
				b[i] = byte(m.Eval(t))
			} else {
				b[i] = '?'
			}
		}
	}
	return string(b)
}

// obsFormat renders an Observe operand exactly as verifrt.format does natively.
func obsFormat(v Value, m Model) string {
	f, ok := v.(Iface)
	if !ok || f.T == nil {
		return "nil"
	}
	switch x := f.V.(type) {
	case Str:
		return strconv.Quote(concretizeStr(x, m))
	case SBool:
		if x.T != nil {
			return strconv.FormatBool(m.Eval(x.T) != 0)
		}
		return strconv.FormatBool(x.V)
	case SInt:
		val := x.V
		if x.T != nil {
			val = m.Eval(x.T)
		}
		_, signed, _ := intWidth(f.T)
		if signed {
			return strconv.FormatInt(sext(val, uint(x.W)), 10)
		}
		return strconv.FormatUint(val, 10)
	case Slice:
		parts := make([]string, x.L)
		for i := 0; i < x.L; i++ {
			parts[i] = strconv.Quote(concretizeStr(x.B[i].(Str), m))
		}
		return "[" + strings.Join(parts, " ") + "]"
	}
	return fmt.Sprintf("<unsupported observe type %T>", f.V)
}
