package main

import (
	"crypto/sha256"
	"encoding/json"
	"fmt"
	"os"
	"path/filepath"
	"sort"
	"strings"
	"time"

	"golang.org/x/tools/go/ssa"
	"golang.org/x/tools/go/ssa/ssautil"
)

type ReplayFile struct {
	Property string            `json:"property"`
	Harness  string            `json:"harness"`
	Kind     string            `json:"kind"`
	Label    string            `json:"label"`
	Site     string            `json:"site"`
	Msg      string            `json:"msg"`
	Vars     map[string]uint64 `json:"vars"`
	Params   map[string]int    `json:"params"`
	Lists    map[string][]string `json:"lists,omitempty"`
	Packages []string          `json:"packages"`
	Stack    []string          `json:"stack,omitempty"`
	Native   string            `json:"native_outcome"`
	How      string            `json:"how_to_replay"`
}

type vioGroup struct {
	key   string
	first *Violation
	count int
	hs    *HarnessSpec
}

func report(id, tier string, seed int, sc *Sidecar, ld *Loaded, sums []*harnessSummary, known *KnownFile, noReplay, verbose bool, t0 time.Time, loadTime time.Duration) int {
	exit := 0
	engineProblems := []string{}
	for _, u := range ld.unavailable {
		engineProblems = append(engineProblems, "harness "+u+" does not compile against the current source and was not run")
	}
	specOf := map[string]*HarnessSpec{}
	for i := range sc.Harnesses {
		specOf[sc.Harnesses[i].Fn] = &sc.Harnesses[i]
	}
	// ---- group violations
	groups := map[string]*vioGroup{}
	var order []string
	inconclusive := 0
	for _, s := range sums {
		for _, v := range s.Violations {
			if v.Kind == "inconclusive" {
				inconclusive++
				fmt.Printf("INCONCLUSIVE property=%s harness=%s label=%s site=%s: %s\n", id, shortName(s.Fn), v.Label, v.Site, v.Msg)
				continue
			}
			k := s.Fn + "|" + v.Kind + "|" + v.Label + "|" + v.Site + "|" + v.Known
			g := groups[k]
			if g == nil {
				g = &vioGroup{key: k, first: v, hs: specOf[s.Fn]}
				groups[k] = g
				order = append(order, k)
			}
			g.count++
		}
	}
	sort.Strings(order)

	// ---- native replay: witnesses of completed paths + violation models
	var rp *Replayer
	validated, mismatches := 0, 0
	replayOutcome := map[string]ReplayResult{}
	replayable := !noReplay
	if replayable {
		var err error
		rp, err = newReplayer(ld)
		if err != nil {
			die(2, "replayer: %v", err)
		}
		for _, hs := range sc.Harnesses {
			if hs.Race {
				rp.race = true // replays run under the Go race detector
			}
		}
		defer rp.Close()
		byPkg := map[string][]ReplayModel{}
		type ref struct {
			kind string // "witness" | "violation"
			res  *PathResult
			key  string
		}
		refs := map[int]ref{}
		nid := 0
		maxW := 400
		if tier == "thorough" {
			maxW = 3000
		}
		for _, s := range sums {
			hs := specOf[s.Fn]
			if hs != nil && hs.NoReplay {
				continue
			}
			pkg := pkgOfHarness(s.Fn)
			ws := s.Witnesses
			// deterministic subsample
			step := 1
			if len(ws) > maxW {
				step = (len(ws) + maxW - 1) / maxW
			}
			sort.Slice(ws, func(i, j int) bool { return trailKey(ws[i].Trail) < trailKey(ws[j].Trail) })
			for i := seed % step; i < len(ws); i += step {
				w := ws[i]
				nid++
				refs[nid] = ref{kind: "witness", res: w}
				byPkg[pkg] = append(byPkg[pkg], ReplayModel{ID: nid, Harness: shortName(s.Fn), Vars: w.Witness, Params: hs.Params[tier], Lists: hs.Lists})
			}
		}
		for _, k := range order {
			g := groups[k]
			if g.hs != nil && g.hs.NoReplay {
				continue
			}
			nid++
			refs[nid] = ref{kind: "violation", key: k}
			byPkg[pkgOfHarness(g.first.Harness)] = append(byPkg[pkgOfHarness(g.first.Harness)], ReplayModel{ID: nid, Harness: shortName(g.first.Harness), Vars: g.first.Inputs, Params: g.hs.Params[tier], Lists: g.hs.Lists})
		}
		for _, pkg := range sortedKeys(byPkg) {
			res, err := rp.run(pkg, byPkg[pkg])
			if err != nil {
				fmt.Fprintf(os.Stderr, "native replay build failed: %v\n", err)
				engineProblems = append(engineProblems, "native replay build failed for "+pkg)
				continue
			}
			for _, m := range byPkg[pkg] {
				r := refs[m.ID]
				rr, ok := res[m.ID]
				if !ok {
					engineProblems = append(engineProblems, fmt.Sprintf("no native result for model %d", m.ID))
					continue
				}
				switch r.kind {
				case "witness":
					exp := "ok"
					if r.res.Outcome.Kind == "panic" {
						exp = "panic"
					}
					got := rr.Outcome
					if got == "crash" {
						got = "panic"
					}
					okObs := strings.Join(rr.Obs, "\n") == strings.Join(r.res.Obs, "\n") || exp == "panic"
					// a completed path with violated assertions fails natively at the first one
					if len(r.res.Viol) > 0 && (got == "assert" || got == "panic") {
						validated++
						continue
					}
					if got == exp && okObs {
						validated++
					} else {
						mismatches++
						if mismatches <= 5 {
							fmt.Fprintf(os.Stderr, "ENGINE-MISMATCH witness harness=%s expected=%s got=%s(%s %s)\n  vars=%v\n  interp obs=%v\n  native obs=%v\n",
								m.Harness, exp, rr.Outcome, rr.Label, firstLine(rr.Msg), m.Vars, clip(fmt.Sprint(r.res.Obs)), clip(fmt.Sprint(rr.Obs)))
						}
					}
				case "violation":
					replayOutcome[r.key] = rr
				}
			}
		}
		if mismatches > 0 {
			engineProblems = append(engineProblems, fmt.Sprintf("%d witness paths behaved differently natively", mismatches))
		}
	}

	// ---- verdict lines
	nViol, nKnown := 0, 0
	knownSeen := map[string]bool{}
	os.MkdirAll(filepath.Join(verifDir, "replays", id), 0o755)
	for _, k := range order {
		g := groups[k]
		v := g.first
		rr, replayed := replayOutcome[k]
		reproduced := false
		if replayed {
			switch v.Kind {
			case "assert":
				reproduced = rr.Outcome == "assert" && rr.Label == v.Label
			case "panic":
				reproduced = rr.Outcome == "panic" || rr.Outcome == "crash"
			case "deadlock":
				reproduced = rr.Outcome == "timeout"
				for try := 0; try < 4 && !reproduced; try++ {
					// the blocking interleaving is timing-dependent natively: try again
					res, err := rp.run(pkgOfHarness(v.Harness), []ReplayModel{{ID: 1, Harness: shortName(v.Harness), Vars: v.Inputs, Params: g.hs.Params[tier], Lists: g.hs.Lists, Timeout: 4000}})
					if err == nil {
						rr = res[1]
						reproduced = rr.Outcome == "timeout"
					}
				}
			case "hang":
				reproduced = rr.Outcome == "timeout" || rr.Outcome == "crash" || rr.Outcome == "panic"
			case "race":
				reproduced = rr.Outcome == "crash" && strings.Contains(rr.Msg, "DATA RACE")
				if !reproduced {
					// a race needs the detector to see both accesses in one run: try again a few times
					for try := 0; try < 8 && !reproduced; try++ {
						res, err := rp.run(pkgOfHarness(v.Harness), []ReplayModel{{ID: 1, Harness: shortName(v.Harness), Vars: v.Inputs, Params: g.hs.Params[tier], Lists: g.hs.Lists}})
						if err == nil {
							rr = res[1]
							reproduced = rr.Outcome == "crash" && strings.Contains(rr.Msg, "DATA RACE")
						}
					}
				}
			}
		}
		if g.hs != nil && g.hs.NoReplay {
			reproduced = true // schedule-dependent: see DESIGN (confirmed separately)
			rr.Outcome = "not replayed (schedule-dependent harness)"
		}
		if !replayable {
			rr.Outcome = "not replayed (-noreplay)"
		}
		if replayable && !reproduced {
			engineProblems = append(engineProblems, fmt.Sprintf("counterexample for %s/%s did not reproduce natively (native outcome: %s %s %s)", shortName(v.Harness), v.Label, rr.Outcome, rr.Label, firstLine(rr.Msg)))
			fmt.Fprintf(os.Stderr, "ENGINE-MISMATCH violation harness=%s label=%s site=%s vars=%v native=%s %s %s\n", shortName(v.Harness), v.Label, v.Site, v.Inputs, rr.Outcome, rr.Label, firstLine(rr.Msg))
			continue
		}
		if v.Known != "" {
			nKnown++
			if !knownSeen[v.Known] {
				knownSeen[v.Known] = true
				fmt.Printf("KNOWN-FINDING: property=%s %s [%s; harness %s, label %s, %d path(s)]\n", id, v.What, v.Known, shortName(v.Harness), v.Label, g.count)
			}
			continue
		}
		nViol++
		h := sha256.Sum256([]byte(k))
		path := filepath.Join(verifDir, "replays", id, fmt.Sprintf("%x.json", h[:6]))
		rf := ReplayFile{Property: id, Harness: v.Harness, Kind: v.Kind, Label: v.Label, Site: v.Site, Msg: v.Msg, Vars: v.Inputs, Params: g.hs.Params[tier], Lists: g.hs.Lists, Packages: sc.Packages, Stack: v.Stack, Native: rr.Outcome + " " + rr.Label + " " + firstLine(rr.Msg),
			How: "cd /verif && ./check --replay " + path}
		b, _ := json.MarshalIndent(rf, "", " ")
		os.WriteFile(path, b, 0o644)
		fmt.Printf("VIOLATION property=%s replay=%s\n", id, path)
		fmt.Printf("  harness=%s kind=%s label=%s site=%s %s\n  inputs=%s\n  native: %s %s %s\n", shortName(v.Harness), v.Kind, v.Label, v.Site, v.Msg, showInputs(v.Inputs), rr.Outcome, rr.Label, firstLine(rr.Msg))
	}
	if nViol > 0 {
		exit = 1
	}

	// ---- coverage / vacuity
	totalPaths, completed, decisions, obligations, discharged, unknowns := 0, 0, 0, 0, 0, 0
	pathKinds := map[string]int{}
	exhaustive := true
	var siteList []map[string]any
	funcs := map[string]bool{}
	var solver SolverStats
	var samples []any
	var perHarness []map[string]any
	for _, s := range sums {
		ph := map[string]any{"harness": s.Fn, "paths": s.Paths, "decisions": s.Decisions, "assert_queries": s.AssertQ, "unsat": s.AssertUnsat, "ssa_steps": s.Steps, "wall_s": round1(s.Elapsed.Seconds()), "max_decision_depth": s.MaxTrail, "goroutines_max": s.Threads}
		if hs := specOf[s.Fn]; hs != nil {
			ph["params"] = hs.Params[tier]
			if hs.Lists != nil {
				ph["discovered_from_source"] = hs.Lists
			}
			if hs.Note != "" {
				ph["note"] = hs.Note
			}
		}
		perHarness = append(perHarness, ph)
		for k, n := range s.Paths {
			pathKinds[k] += n
			totalPaths += n
			switch k {
			case "completed":
				completed += n
			case "panic", "assume", "infeasible", "deadlock", "hang":
			default:
				exhaustive = false
			}
		}
		if s.Truncated {
			exhaustive = false
			engineProblems = append(engineProblems, shortName(s.Fn)+": exploration truncated by path/time budget")
		}
		decisions += s.Decisions
		obligations += s.AssertQ
		discharged += s.AssertUnsat
		unknowns += s.Unknowns
		solver.Queries += s.Solver.Queries
		solver.SatN += s.Solver.SatN
		solver.UnsatN += s.Solver.UnsatN
		solver.UnknownN += s.Solver.UnknownN
		solver.Errors += s.Solver.Errors
		solver.Time += s.Solver.Time
		for f := range s.Funcs {
			funcs[f] = true
		}
		if !s.Reached["end"] {
			engineProblems = append(engineProblems, shortName(s.Fn)+": vacuous (Reach(\"end\") on no completed path)")
		}
		if len(s.Sites) == 0 {
			engineProblems = append(engineProblems, shortName(s.Fn)+": vacuous (no assertion evaluated)")
		}
		for _, l := range sortedKeys(s.Sites) {
			a := s.Sites[l]
			siteList = append(siteList, map[string]any{"harness": shortName(s.Fn), "label": l, "evaluated_on_feasible_paths": a.Evaluated, "non_constant": a.NonTrivial, "violated": a.Violated})
		}
		// samples: a few witness inputs
		ws := s.Witnesses
		for i := 0; i < len(ws) && i < 3; i++ {
			w := ws[(i*7919+seed)%len(ws)]
			samples = append(samples, map[string]any{"harness": shortName(s.Fn), "inputs": w.Witness, "observations": w.Obs, "decisions": len(w.Trail), "outcome": w.Outcome.Kind})
		}
	}
	if unknowns > 0 || inconclusive > 0 {
		exhaustive = false
		engineProblems = append(engineProblems, fmt.Sprintf("%d solver answers were unknown/timeouts", unknowns+inconclusive))
	}
	if solver.Errors > 0 {
		engineProblems = append(engineProblems, fmt.Sprintf("%d solver error lines", solver.Errors))
	}
	for k, n := range pathKinds {
		switch k {
		case "unsupported", "budget", "bound", "engine", "inconclusive":
			engineProblems = append(engineProblems, fmt.Sprintf("%d paths ended as %s", n, k))
		}
	}

	// functions encoded (servitor code actually executed), with SSA hashes
	var encoded []map[string]any
	all := ssautil.AllFunctions(ld.P.prog)
	byName := map[string]*ssa.Function{}
	for f := range all {
		byName[f.String()] = f
	}
	nServ, nLib := 0, 0
	for _, name := range sortedKeys(funcs) {
		f := byName[name]
		if f == nil {
			continue
		}
		isServ := strings.Contains(name, "servitor/")
		if isServ && !strings.Contains(name, "Verif") && !strings.Contains(name, "verif") {
			n, h := fnHash(f)
			encoded = append(encoded, map[string]any{"fn": name, "instrs": n, "ssa_sha": h})
			nServ++
		} else if !isServ {
			nLib++
		}
	}

	wall := time.Since(t0).Seconds()
	cov := map[string]any{
		"states":                        max1(completed + pathKinds["panic"]),
		"transitions":                   max1(decisions),
		"traces_validated_against_impl": validated,
		"samples":                       nonEmpty(samples),
		"obligations":                   obligations,
		"discharged":                    discharged,
		"exhaustive":                    exhaustive && len(engineProblems) == 0,
		"paths":                         pathKinds,
		"per_harness":                   perHarness,
		"assert_sites":                  siteList,
		"functions_encoded":             encoded,
		"functions_encoded_count":       nServ,
		"library_functions_interpreted": nLib,
		"bounds":                        sc.Bounds[tier],
		"outside_claim":                 sc.Outside,
		"stubs":                         sc.StubNotes,
		"smt": map[string]any{"solver": "z3 " + z3Version(), "queries": solver.Queries, "sat": solver.SatN, "unsat": solver.UnsatN,
			"unknown": solver.UnknownN, "errors": solver.Errors, "time_s": round1(solver.Time.Seconds())},
		"known_findings_matched": nKnown,
		"engine_problems":        engineProblems,
		"harness_files_left_out": ld.dropped,
		"optional_harnesses_skipped": ld.skipped,
		"load_and_ssa_build_s":   round1(loadTime.Seconds()),
		"encoding_regenerated_from": "/repo working tree via go/packages + go/ssa (x/tools v0.29.0) on this run",
		"explanation": "bounded symbolic execution of the real SSA; every assertion is decided by an SMT query over all inputs of the path; witnesses and counterexamples are replayed against the natively compiled code",
	}
	ev := Evidence{PropertyID: id, Tier: tier, Seed: seed, Level: "model_checking", Coverage: cov, Assumptions: append([]string{}, sc.Assumptions...), WallS: round1(wall), Violations: nViol}
	b, _ := json.MarshalIndent(ev, "", " ")
	// evidence describes a run against /repo; a run against another tree
	// (GOSYM_REPO: seeded or property-preserving changes in scratch worktrees)
	// must not overwrite it
	evDir := filepath.Join(verifDir, "evidence")
	if d := os.Getenv("GOSYM_EVIDENCE_DIR"); d != "" {
		evDir = d
	} else if repoDir != "/repo" {
		evDir = filepath.Join(os.TempDir(), "gosym-evidence-other-tree")
	}
	os.MkdirAll(evDir, 0o755)
	if err := os.WriteFile(filepath.Join(evDir, id+".json"), b, 0o644); err != nil {
		die(2, "cannot write evidence: %v", err)
	}
	fmt.Printf("%s %s: %d paths (%v), %d decisions, %d assertion queries (%d unsat), %d native replays ok, %d violation(s), %d known, solver %d queries %.1fs, wall %.1fs\n",
		id, tier, totalPaths, pathKinds, decisions, obligations, discharged, validated, nViol, nKnown, solver.Queries, solver.Time.Seconds(), wall)
	if len(engineProblems) > 0 {
		for _, p := range engineProblems {
			fmt.Printf("CHECK-PROBLEM: %s\n", p)
		}
		if exit == 0 {
			exit = 2
		}
	}
	return exit
}

func z3Version() string { return "4.8.12" }

func max1(n int) int {
	if n < 1 {
		return 1
	}
	return n
}

func nonEmpty(s []any) []any {
	if len(s) == 0 {
		return []any{"(no completed path)"}
	}
	return s
}

func round1(f float64) float64 { return float64(int(f*10+0.5)) / 10 }

func firstLine(s string) string {
	if i := strings.IndexByte(s, '\n'); i >= 0 {
		return s[:i]
	}
	return s
}

func trailKey(t []Dec) string {
	var sb strings.Builder
	for _, d := range t {
		fmt.Fprintf(&sb, "%c%d,", d.K, d.V)
	}
	return sb.String()
}

func showInputs(m map[string]uint64) string {
	ks := sortedKeys(m)
	parts := make([]string, len(ks))
	for i, k := range ks {
		parts[i] = fmt.Sprintf("%s=%d", k, m[k])
	}
	return strings.Join(parts, " ")
}

// ---- replay of a recorded counterexample file

func runReplayFile(path string) int {
	b, err := os.ReadFile(path)
	if err != nil {
		die(2, "%v", err)
	}
	var rf ReplayFile
	if err := json.Unmarshal(b, &rf); err != nil {
		die(2, "%v", err)
	}
	sc, err := readSidecar(rf.Property)
	if err != nil {
		die(2, "%v", err)
	}
	ld, err := loadProgram(sc)
	if err != nil {
		die(2, "%v", err)
	}
	rp, err := newReplayer(ld)
	if err != nil {
		die(2, "%v", err)
	}
	defer rp.Close()
	for _, hs := range sc.Harnesses {
		if hs.Race {
			rp.race = true
		}
	}
	res, err := rp.run(pkgOfHarness(rf.Harness), []ReplayModel{{ID: 1, Harness: shortName(rf.Harness), Vars: rf.Vars, Params: rf.Params, Lists: rf.Lists}})
	if err != nil {
		die(2, "%v", err)
	}
	r := res[1]
	fmt.Printf("native replay of %s: outcome=%s label=%s msg=%s\nobservations=%v\n", shortName(rf.Harness), r.Outcome, r.Label, r.Msg, r.Obs)
	if r.Outcome == "ok" {
		fmt.Println("the recorded counterexample no longer fails")
		return 0
	}
	fmt.Printf("VIOLATION property=%s replay=%s\n", rf.Property, path)
	return 1
}

func selftest() int {
	return runSelftest()
}

func clip(s string) string {
	if len(s) > 400 {
		return s[:400] + "..."
	}
	return s
}
