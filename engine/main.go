package main

import (
	"crypto/sha256"
	"encoding/json"
	"flag"
	"fmt"
	"os"
	"path/filepath"
	"runtime"
	"sort"
	"strings"
	"time"

	"golang.org/x/tools/go/packages"
	"golang.org/x/tools/go/ssa"
	"golang.org/x/tools/go/ssa/ssautil"
)

const verifDir = "/verif"
var repoDir = envOr("GOSYM_REPO", "/repo")

func envOr(k, d string) string {
	if v := os.Getenv(k); v != "" {
		return v
	}
	return d
}

// ---- sidecar configuration (/verif/harness/<ID>.json)

type HarnessSpec struct {
	Fn       string           `json:"fn"` // e.g. servitor/history.VerifC18HistoryStep
	Params   map[string]map[string]int `json:"params"` // tier -> name -> value
	Schedule bool             `json:"schedule"`
	Race     bool             `json:"race"`
	NoReplay bool             `json:"no_replay"`
	Discover *DiscoverSpec    `json:"discover"`
	Lists    map[string][]string `json:"-"` // filled by the discovery pass
	Optional bool             `json:"optional"` // white-box lemma about an internal function: skipped with a notice when that function no longer exists
	HangIsViolation bool      `json:"hang_is_violation"`
	Stubs    map[string]string `json:"stubs"`
	MaxPaths map[string]int   `json:"max_paths"`
	Note     string           `json:"note"`
}

// DiscoverSpec: before the harness runs, Fn is explored (engine only) and the
// string keys it looks up in traced maps are collected into the list Name,
// which both functions read with verifrt.Strings(Name); repeated until the
// list stops growing or Rounds is reached.
type DiscoverSpec struct {
	Name   string `json:"name"`
	Fn     string `json:"fn"`
	Rounds int    `json:"rounds"`
}

type Sidecar struct {
	Property   string            `json:"property"`
	Packages   []string          `json:"packages"`
	Harnesses  []HarnessSpec     `json:"harnesses"`
	Stubs      map[string]string `json:"stubs"`
	Assumptions []string         `json:"assumptions"`
	StubNotes  []string          `json:"stub_notes"`
	Bounds     map[string]string `json:"bounds"` // tier -> text
	Outside    []string          `json:"outside"`
	QueryTimeoutMs map[string]int `json:"query_timeout_ms"`
	StepBudget int64             `json:"step_budget"`
	TimeBudgetS map[string]int   `json:"time_budget_s"`
}

type RunConfig struct {
	Solver         string
	QueryTimeoutMs int
	StepBudget     int64
	Params         map[string]int
	Twin           bool
	ScheduleMode   bool
	RaceMonitor    bool
	Deadline       time.Time
	Known          []KnownFinding
	ProfileForks   bool
	HangIsViolation bool
	Harness        string
	Lists          map[string][]string
}

type WhereAtom struct {
	Var    string `json:"var"`
	Op     string `json:"op"` // == != < <= > >= (signed 64-bit unless unsigned)
	Val    int64  `json:"val"`
	Unsigned bool `json:"unsigned"`
}

type KnownFinding struct {
	Property string      `json:"property"`
	ID       string      `json:"id"`
	Harness  string      `json:"harness"`
	Label    string      `json:"label"` // assertion label or "no-panic"
	Site     string      `json:"site"`  // substring of the site, optional
	Where    []WhereAtom `json:"where"`
	What     string      `json:"what"`
	Fixed    string      `json:"fixed"` // commit; a fixed entry suppresses nothing
}

type KnownFile struct {
	Findings []KnownFinding `json:"findings"`
	Fixed    []string       `json:"fixed"`
}

func die(code int, format string, a ...any) {
	fmt.Fprintf(os.Stderr, format+"\n", a...)
	os.Exit(code)
}

func main() {
	if len(os.Args) < 2 {
		die(2, "usage: gosym check <ID> <quick|thorough> | replay <file> | selftest")
	}
	switch os.Args[1] {
	case "check":
		fs := flag.NewFlagSet("check", flag.ExitOnError)
		workers := fs.Int("workers", runtime.NumCPU(), "parallel workers")
		only := fs.String("only", "", "run only harnesses whose name contains this")
		noReplay := fs.Bool("noreplay", false, "skip native replay (debugging only; exit 2)")
		verbose := fs.Bool("v", false, "verbose")
		fs.Parse(os.Args[2:])
		if fs.NArg() < 2 {
			die(2, "usage: gosym check [flags] <ID> <quick|thorough>")
		}
		tier := fs.Arg(1)
		if t := os.Getenv("VERIF_TIER"); t == "quick" || t == "thorough" {
			tier = t
		}
		os.Exit(runCheck(fs.Arg(0), tier, *workers, *only, *noReplay, *verbose))
	case "replay":
		if len(os.Args) < 3 {
			die(2, "usage: gosym replay <file>")
		}
		os.Exit(runReplayFile(os.Args[2]))
	case "selftest":
		os.Exit(selftest())
	default:
		die(2, "unknown command %s", os.Args[1])
	}
}

// ---- loading

type Loaded struct {
	P        *Program
	pkgs     []*packages.Package
	overlay  map[string][]byte
	overlayFiles map[string]string // virtual -> real
	dropped  map[string]string // harness files left out: real path -> first error
	unavailable []string       // required harnesses that could not be run
	skipped  []string          // optional harnesses skipped
}

func harnessOverlay(pkgs []string) (map[string][]byte, map[string]string, error) {
	ov := map[string][]byte{}
	files := map[string]string{}
	add := func(dir, pkg string) error {
		ents, err := os.ReadDir(dir)
		if err != nil {
			return err
		}
		for _, e := range ents {
			if e.IsDir() || !strings.HasSuffix(e.Name(), ".go") {
				continue
			}
			real := filepath.Join(dir, e.Name())
			b, err := os.ReadFile(real)
			if err != nil {
				return err
			}
			name := e.Name()
			if !strings.HasPrefix(name, "zz_verif_") {
				name = "zz_verif_" + name
			}
			virt := filepath.Join(repoDir, pkg, name)
			if pkg == "." {
				virt = filepath.Join(repoDir, name)
			}
			ov[virt] = b
			files[virt] = real
		}
		return nil
	}
	if err := add(filepath.Join(verifDir, "harness", "verifrt"), "verifrt"); err != nil {
		return nil, nil, err
	}
	for _, p := range pkgs {
		if err := add(filepath.Join(verifDir, "harness", p), p); err != nil {
			return nil, nil, err
		}
	}
	return ov, files, nil
}

func loadProgram(sc *Sidecar) (*Loaded, error) {
	// all harness packages are always overlaid: harness files of one package may
	// use helpers that another package's harness exports
	var all []string
	ents, _ := os.ReadDir(filepath.Join(verifDir, "harness"))
	for _, e := range ents {
		if e.IsDir() && e.Name() != "verifrt" {
			all = append(all, e.Name())
		}
	}
	ov, files, err := harnessOverlay(all)
	if err != nil {
		return nil, err
	}
	cfg := &packages.Config{
		Mode:       packages.LoadAllSyntax,
		Dir:        repoDir,
		BuildFlags: []string{"-tags=verif"},
		Overlay:    ov,
		Env:        append(os.Environ(), "GOFLAGS=-mod=mod", "GOPROXY=off", "GOSUMDB=off", "GOTOOLCHAIN=local"),
	}
	patterns := []string{"./..."}
	// A harness file that no longer compiles against the current source (it
	// names an unexported identifier that was renamed or removed) is left
	// out, so that the harnesses in the other files still decide what they can.
	dropped := map[string]string{}
	var pkgs []*packages.Package
	for attempt := 0; ; attempt++ {
		pkgs, err = packages.Load(cfg, patterns...)
		if err != nil {
			return nil, err
		}
		var errs []packages.Error
		packages.Visit(pkgs, nil, func(p *packages.Package) {
			errs = append(errs, p.Errors...)
		})
		if len(errs) == 0 {
			break
		}
		bad := map[string]string{}
		foreign := false
		for _, e := range errs {
			file := e.Pos
			if i := strings.Index(file, ":"); i >= 0 {
				file = file[:i]
			}
			if _, isHarness := ov[file]; isHarness && !strings.Contains(file, "/verifrt/") {
				if _, seen := bad[file]; !seen {
					bad[file] = e.Msg
				}
			} else {
				foreign = true
			}
		}
		if foreign || len(bad) == 0 || attempt >= 3 {
			for _, e := range errs {
				fmt.Fprintln(os.Stderr, "load error:", e)
			}
			return nil, fmt.Errorf("%d package load errors", len(errs))
		}
		for file, msg := range bad {
			fmt.Printf("NOTE: harness file %s does not compile against the current source and is left out (%s)\n", files[file], msg)
			dropped[files[file]] = msg
			delete(ov, file)
			delete(files, file)
		}
	}
	prog, _ := ssautil.AllPackages(pkgs, ssa.InstantiateGenerics)
	prog.Build()
	P := &Program{prog: prog, sizes: pkgs[0].TypesSizes, stubs: map[string]*ssa.Function{}, initAllow: defaultInitAllow()}
	for callee, repl := range sc.Stubs {
		f := findFunc(prog, repl)
		if f == nil {
			if len(dropped) > 0 {
				continue // decided per harness in runCheck
			}
			return nil, fmt.Errorf("stub replacement %s not found", repl)
		}
		P.stubs[callee] = f
	}
	return &Loaded{P: P, pkgs: pkgs, overlay: ov, overlayFiles: files, dropped: dropped}, nil
}

func defaultInitAllow() map[string]bool {
	m := map[string]bool{}
	for _, p := range []string{
		"errors", "io", "strconv", "bufio", "net/url", "strings", "bytes", "unicode/utf8", "container/list",
		"github.com/hashicorp/golang-lru/v2", "github.com/hashicorp/golang-lru/v2/simplelru", "github.com/hashicorp/golang-lru/v2/internal",
		"golang.org/x/exp/slices", "golang.org/x/exp/constraints", "math/bits", "sort", "slices", "cmp",
		"internal/stringslite", "internal/itoa", "golang.org/x/net/html/atom",
	} {
		m[p] = true
	}
	return m
}

// findFunc resolves "pkg/path.Func" or "(*pkg/path.T).Method" or "(pkg/path.T).Method".
func findFunc(prog *ssa.Program, name string) *ssa.Function {
	if strings.HasPrefix(name, "(") {
		for fn := range ssautil.AllFunctions(prog) {
			if fn.String() == name {
				return fn
			}
		}
		return nil
	}
	i := strings.LastIndex(name, ".")
	if i < 0 {
		return nil
	}
	pkg := prog.ImportedPackage(name[:i])
	if pkg == nil {
		return nil
	}
	fname := name[i+1:]
	if f := pkg.Func(fname); f != nil {
		return f
	}
	// init#1 style names
	for _, m := range pkg.Members {
		if f, ok := m.(*ssa.Function); ok && f.Name() == fname {
			return f
		}
	}
	if strings.HasPrefix(fname, "init#") {
		initf := pkg.Func("init")
		for _, b := range initf.Blocks {
			for _, ins := range b.Instrs {
				if c, ok := ins.(*ssa.Call); ok {
					if f := c.Call.StaticCallee(); f != nil && f.Name() == fname {
						return f
					}
				}
			}
		}
	}
	return nil
}

func (in *Interp) runHarness(name string) {
	fn := findFunc(in.P.prog, name)
	if fn == nil {
		in.abort("engine", "harness "+name+" not found", "")
	}
	in.runInit(nil, fn.Pkg)
	in.call(nil, fn, nil)
}

// ---- check driver

type Evidence struct {
	PropertyID  string         `json:"property_id"`
	Tier        string         `json:"tier"`
	Seed        int            `json:"seed"`
	Level       string         `json:"level"`
	Coverage    map[string]any `json:"coverage"`
	Assumptions []string       `json:"assumptions"`
	WallS       float64        `json:"wall_s"`
	Violations  int            `json:"violations"`
}

type harnessSummary struct {
	Fn          string
	Paths       map[string]int // outcome kind -> count
	Decisions   int
	AssertQ     int
	AssertUnsat int
	Unknowns    int
	Steps       int64
	Sites       map[string]*AssertSite
	Reached     map[string]bool
	Violations  []*Violation
	Witnesses   []*PathResult
	Funcs       map[string]bool
	Truncated   bool
	Solver      SolverStats
	Elapsed     time.Duration
	Threads     int
	Switches    int
	MaxTrail    int
}

func readSidecar(id string) (*Sidecar, error) {
	b, err := os.ReadFile(filepath.Join(verifDir, "harness", id+".json"))
	if err != nil {
		return nil, err
	}
	var sc Sidecar
	if err := json.Unmarshal(b, &sc); err != nil {
		return nil, fmt.Errorf("%s.json: %v", id, err)
	}
	return &sc, nil
}

func readKnown() (*KnownFile, error) {
	b, err := os.ReadFile(envOr("GOSYM_KNOWN", filepath.Join(verifDir, "known_findings.json")))
	if err != nil {
		if os.IsNotExist(err) {
			return &KnownFile{}, nil
		}
		return nil, err
	}
	var k KnownFile
	if err := json.Unmarshal(b, &k); err != nil {
		return nil, err
	}
	return &k, nil
}

func shortName(fn string) string {
	if i := strings.LastIndex(fn, "."); i >= 0 {
		return fn[i+1:]
	}
	return fn
}

func runCheck(id, tier string, workers int, only string, noReplay, verbose bool) int {
	t0 := time.Now()
	seed := 0
	fmt.Sscan(os.Getenv("VERIF_SEED"), &seed)
	sc, err := readSidecar(id)
	if err != nil {
		die(2, "cannot read sidecar: %v", err)
	}
	known, err := readKnown()
	if err != nil {
		die(2, "cannot read known_findings.json: %v", err)
	}
	ld, err := loadProgram(sc)
	if err != nil {
		die(2, "cannot load /repo with harness overlay: %v", err)
	}
	loadTime := time.Since(t0)
	var sums []*harnessSummary
	// a safety net: exploration of one harness stops (and the check reports
	// itself incomplete) rather than running for ever on a tree that makes it explode
	totalBudget := 900
	if tier == "thorough" {
		totalBudget = 5400
	}
	if sc.TimeBudgetS != nil && sc.TimeBudgetS[tier] > 0 {
		totalBudget = sc.TimeBudgetS[tier]
	}
	for hi, hs := range sc.Harnesses {
		if only != "" && !strings.Contains(hs.Fn, only) {
			continue
		}
		cfg := &RunConfig{Solver: "z3", QueryTimeoutMs: 10000, StepBudget: 5_000_000, Params: map[string]int{}, Harness: hs.Fn}
		if tier == "thorough" {
			cfg.QueryTimeoutMs = 60000
		}
		if v, ok := sc.QueryTimeoutMs[tier]; ok {
			cfg.QueryTimeoutMs = v
		}
		if sc.StepBudget > 0 {
			cfg.StepBudget = sc.StepBudget
		}
		for k, v := range hs.Params[tier] {
			cfg.Params[k] = v
		}
		cfg.ProfileForks = verbose
		cfg.HangIsViolation = hs.HangIsViolation
		cfg.ScheduleMode = hs.Schedule
		cfg.RaceMonitor = hs.Race
		for _, k := range known.Findings {
			if k.Property == id && k.Fixed == "" {
				cfg.Known = append(cfg.Known, k)
			}
		}
		if totalBudget > 0 {
			cfg.Deadline = time.Now().Add(time.Duration(totalBudget) * time.Second)
		}
		// harness-specific stubs on top of the sidecar-wide ones
		ld.P.stubs = map[string]*ssa.Function{}
		missing := ""
		if findFunc(ld.P.prog, hs.Fn) == nil {
			missing = hs.Fn
		}
		for callee, repl := range sc.Stubs {
			f := findFunc(ld.P.prog, repl)
			if f == nil {
				missing = repl
				continue
			}
			ld.P.stubs[callee] = f
		}
		for callee, repl := range hs.Stubs {
			f := findFunc(ld.P.prog, repl)
			if f == nil {
				missing = repl
				continue
			}
			ld.P.stubs[callee] = f
			// a stub for a function that no longer exists stands for nothing
			if !strings.Contains(callee, "#") && findFunc(ld.P.prog, callee) == nil {
				missing = callee
			}
		}
		if missing != "" {
			if len(ld.dropped) == 0 && !hs.Optional {
				die(2, "harness %s: %s not found", hs.Fn, missing)
			}
			if hs.Optional {
				fmt.Printf("SKIPPED optional white-box harness %s: %s is not there in the current source\n", shortName(hs.Fn), missing)
				ld.skipped = append(ld.skipped, shortName(hs.Fn))
			} else {
				ld.unavailable = append(ld.unavailable, shortName(hs.Fn)+" (needs "+missing+")")
			}
			continue
		}
		if d := hs.Discover; d != nil {
			if findFunc(ld.P.prog, d.Fn) == nil {
				die(2, "discovery function %s not found", d.Fn)
			}
			list := []string{}
			rounds := d.Rounds
			if rounds <= 0 {
				rounds = 3
			}
			for round := 0; round < rounds; round++ {
				dcfg := *cfg
				dcfg.Harness = d.Fn
				dcfg.Lists = map[string][]string{d.Name: list}
				dex := &Explorer{P: ld.P, cfg: &dcfg}
				dex.run(d.Fn, workers)
				set := map[string]bool{}
				for _, k := range list {
					set[k] = true
				}
				for _, r := range dex.results {
					if r.Outcome.Kind == "engine" || r.Outcome.Kind == "unsupported" {
						die(2, "discovery pass %s: %s %s", d.Fn, r.Outcome.Kind, r.Outcome.Msg)
					}
					for _, k := range r.Touched {
						set[k] = true
					}
				}
				next := sortedKeys(set)
				grown := len(next) > len(list)
				list = next
				if !grown {
					break
				}
			}
			if len(list) == 0 {
				die(2, "discovery pass %s found nothing", d.Fn)
			}
			cfg.Lists = map[string][]string{d.Name: list}
			sc.Harnesses[hi].Lists = cfg.Lists
			if verbose {
				fmt.Fprintf(os.Stderr, "discovered %s: %v\n", d.Name, list)
			}
		}
		ex := &Explorer{P: ld.P, cfg: cfg, progress: verbose}
		if hs.MaxPaths != nil {
			ex.maxPaths = hs.MaxPaths[tier]
		}
		h0 := time.Now()
		ex.run(hs.Fn, workers)
		sum := summarize(hs.Fn, ex)
		sum.Elapsed = time.Since(h0)
		sums = append(sums, sum)
		if verbose {
			forks := map[string]int{}
			for _, r := range ex.results {
				for k, v := range r.Forks {
					forks[k] += v
				}
			}
			ks := sortedKeys(forks)
			sort.Slice(ks, func(i, j int) bool { return forks[ks[i]] > forks[ks[j]] })
			for i, k := range ks {
				if i >= 12 {
					break
				}
				fmt.Fprintf(os.Stderr, "    forks %7d  %s\n", forks[k], k)
			}
			fmt.Fprintf(os.Stderr, "%s: paths %v, %d assert queries (%d unsat), %d violations, %.1fs\n", hs.Fn, sum.Paths, sum.AssertQ, sum.AssertUnsat, len(sum.Violations), sum.Elapsed.Seconds())
		}
	}
	if len(sums) == 0 {
		for _, u := range ld.unavailable {
			fmt.Printf("CHECK-PROBLEM: harness %s does not compile against the current source\n", u)
		}
		die(2, "no harness could be run")
	}
	return report(id, tier, seed, sc, ld, sums, known, noReplay, verbose, t0, loadTime)
}

func summarize(fn string, ex *Explorer) *harnessSummary {
	s := &harnessSummary{Fn: fn, Paths: map[string]int{}, Sites: map[string]*AssertSite{}, Reached: map[string]bool{}, Funcs: map[string]bool{}, Truncated: ex.truncated, Solver: ex.solverStats}
	for _, r := range ex.results {
		s.Paths[r.Outcome.Kind]++
		s.Decisions += len(r.Trail)
		if len(r.Trail) > s.MaxTrail {
			s.MaxTrail = len(r.Trail)
		}
		s.AssertQ += r.Stats.AssertQueries
		s.AssertUnsat += r.Stats.AssertUnsat
		s.Unknowns += r.Unknowns
		s.Steps += r.Steps
		if r.Threads > s.Threads {
			s.Threads = r.Threads
		}
		s.Switches += r.Switches
		for l, a := range r.Asserts {
			t := s.Sites[l]
			if t == nil {
				t = &AssertSite{Label: l}
				s.Sites[l] = t
			}
			t.Evaluated += a.Evaluated
			t.Violated += a.Violated
			t.NonTrivial += a.NonTrivial
		}
		for l := range r.Reached {
			if r.Outcome.Kind == "completed" {
				s.Reached[l] = true
			}
		}
		s.Violations = append(s.Violations, r.Viol...)
		if r.Witness != nil {
			s.Witnesses = append(s.Witnesses, r)
		}
		for _, f := range r.Funcs {
			s.Funcs[f] = true
		}
		if r.Outcome.Kind == "engine" || r.Outcome.Kind == "unsupported" || r.Outcome.Kind == "budget" || r.Outcome.Kind == "bound" || r.Outcome.Kind == "inconclusive" {
			fmt.Fprintf(os.Stderr, "  [%s] %s: %s @ %s\n", shortName(fn), r.Outcome.Kind, r.Outcome.Msg, r.Outcome.Site)
		}
	}
	return s
}

func fnHash(fn *ssa.Function) (int, string) {
	var sb strings.Builder
	fn.WriteTo(&sb)
	n := 0
	for _, b := range fn.Blocks {
		n += len(b.Instrs)
	}
	h := sha256.Sum256([]byte(sb.String()))
	return n, fmt.Sprintf("%x", h[:6])
}

func sortedKeys[V any](m map[string]V) []string {
	ks := make([]string, 0, len(m))
	for k := range m {
		ks = append(ks, k)
	}
	sort.Strings(ks)
	return ks
}
