package main

// regexp is environment, not servitor code. MustCompile compiles the pattern
// with the real regexp/syntax package and keeps the syntax.Prog the real
// engine would run; matching on subjects with symbolic bytes is a port of
// regexp/backtrack.go (leftmost-first semantics, same priority order, same
// capture bookkeeping) in which "does this rune match this instruction" is a
// term handed to Branch. Concrete subjects go to the real package.

import (
	"regexp"
	"regexp/syntax"
	"sync"
	"unicode"
	"unicode/utf8"

	"golang.org/x/tools/go/ssa"
)

type reNative struct {
	pat    string
	re     *regexp.Regexp
	prog   *syntax.Prog
	numCap int // 2*(NumSubexp+1)
	cond   syntax.EmptyOp
}

var reCache sync.Map

func compileRe(pat string) (*reNative, error) {
	if v, ok := reCache.Load(pat); ok {
		return v.(*reNative), nil
	}
	re, err := regexp.Compile(pat)
	if err != nil {
		return nil, err
	}
	sre, err := syntax.Parse(pat, syntax.Perl)
	if err != nil {
		return nil, err
	}
	sre = sre.Simplify()
	prog, err := syntax.Compile(sre)
	if err != nil {
		return nil, err
	}
	r := &reNative{pat: pat, re: re, prog: prog, numCap: 2 * (re.NumSubexp() + 1), cond: prog.StartCond()}
	reCache.Store(pat, r)
	return r, nil
}

func registerRegexpIntrinsics() {
	intrinsics["regexp.MustCompile"] = func(in *Interp, fr *frame, fn *ssa.Function, a []Value) (Value, bool) {
		s := a[0].(Str)
		if !s.IsConcrete() {
			in.unsupported("symbolic regular expression")
		}
		r, err := compileRe(s.S)
		if err != nil {
			in.throwNative(fr, "regexp: Compile("+s.S+"): "+err.Error())
		}
		return Native{r}, true
	}
	intrinsics["(*regexp.Regexp).FindAllStringSubmatch"] = reFindAllStringSubmatch
	intrinsics["(*regexp.Regexp).FindStringSubmatch"] = reFindStringSubmatch
	intrinsics["(*regexp.Regexp).ReplaceAllString"] = reReplaceAllString
	intrinsics["(*regexp.Regexp).ReplaceAllStringFunc"] = reReplaceAllStringFunc
	intrinsics["(*regexp.Regexp).MatchString"] = func(in *Interp, fr *frame, fn *ssa.Function, a []Value) (Value, bool) {
		r := a[0].(Native).X.(*reNative)
		m := in.reExec(fr, r, a[1].(Str), 0, 0)
		return SBool{V: m != nil}, true
	}
}

type btJob struct {
	pc  uint32
	arg bool
	pos int
}

// reExec is doExecute: match of r in s starting the search at pos; returns
// the capture vector (ncap entries) or nil.
func (in *Interp) reExec(fr *frame, r *reNative, s Str, pos int, ncap int) []int {
	if r.cond == ^syntax.EmptyOp(0) {
		return nil
	}
	if r.cond&syntax.EmptyBeginText != 0 && pos != 0 {
		return nil
	}
	end := len(s.S)
	prog := r.prog
	capv := make([]int, ncap)
	matchcap := make([]int, ncap)
	for i := range matchcap {
		matchcap[i] = -1
	}
	visited := map[[2]int]bool{}
	if ncap == 0 {
		matchcap = []int{}
	}
	try := func(pos int) bool {
		return in.tryBacktrack(fr, prog, s, uint32(prog.Start), pos, capv, matchcap, visited)
	}
	if r.cond&syntax.EmptyBeginText != 0 {
		if len(capv) > 0 {
			capv[0] = pos
		}
		if !try(pos) {
			return nil
		}
	} else {
		width := -1
		found := false
		for ; pos <= end && width != 0; pos += width {
			if len(capv) > 0 {
				capv[0] = pos
			}
			if try(pos) {
				found = true
				break
			}
			_, width = in.reStep(s, pos)
		}
		if !found {
			return nil
		}
	}
	if ncap == 0 {
		return []int{}
	}
	return matchcap
}

func (in *Interp) reStep(s Str, pos int) (SInt, int) {
	if pos < len(s.S) {
		return in.decodeRuneCached(s, pos)
	}
	return mkInt(32, uint64(uint32(0xFFFFFFFF))), 0
}

type decodeKey struct {
	a, b, c, d int
	n          int
	k0, k1, k2, k3 byte
}

type decoded struct {
	r SInt
	n int
}

func (in *Interp) decodeRuneCached(s Str, pos int) (SInt, int) {
	if s.Sym == nil {
		r, n := utf8.DecodeRuneInString(s.S[pos:])
		return mkInt(32, uint64(uint32(r))), n
	}
	var k decodeKey
	rem := len(s.S) - pos
	if rem > 4 {
		rem = 4
	}
	k.n = rem
	ids := [4]*int{&k.a, &k.b, &k.c, &k.d}
	ks := [4]*byte{&k.k0, &k.k1, &k.k2, &k.k3}
	for i := 0; i < rem; i++ {
		if t := s.Sym[pos+i]; t != nil {
			*ids[i] = t.id
		} else {
			*ks[i] = s.S[pos+i]
			*ids[i] = -1
		}
	}
	if in.decodeCache == nil {
		in.decodeCache = map[decodeKey]decoded{}
	}
	if d, ok := in.decodeCache[k]; ok {
		return d.r, d.n
	}
	r, n := in.decodeRune(s, pos)
	in.decodeCache[k] = decoded{r, n}
	return r, n
}

// matchRuneTerm ports syntax.Inst.MatchRunePos != noMatch.
func (in *Interp) matchRune(inst *syntax.Inst, r SInt) bool {
	if r.T == nil {
		return inst.MatchRune(rune(int32(r.V)))
	}
	tb := in.tb
	c := func(v rune) *Term { return tb.Const(SoBV32, uint64(uint32(v))) }
	rt := r.T
	var cond *Term
	switch inst.Op {
	case syntax.InstRuneAny:
		return true
	case syntax.InstRuneAnyNotNL:
		cond = tb.Not(tb.Eq(rt, c('\n')))
	default:
		runes := inst.Rune
		if len(runes) == 1 {
			r0 := runes[0]
			cond = tb.Eq(rt, c(r0))
			if syntax.Flags(inst.Arg)&syntax.FoldCase != 0 {
				for r1 := unicode.SimpleFold(r0); r1 != r0; r1 = unicode.SimpleFold(r1) {
					cond = tb.Or(cond, tb.Eq(rt, c(r1)))
				}
			}
		} else {
			cond = tb.Bool(false)
			for j := 0; j+1 < len(runes); j += 2 {
				lo, hi := runes[j], runes[j+1]
				var t *Term
				if lo == hi {
					t = tb.Eq(rt, c(lo))
				} else {
					t = tb.And(tb.Bin(OpBvUle, c(lo), rt), tb.Bin(OpBvUle, rt, c(hi)))
				}
				cond = tb.Or(cond, t)
			}
		}
	}
	return in.ex.Branch(cond)
}

// emptyOK ports lazyFlag.match for the empty-width assertion of inst.
func (in *Interp) emptyOK(fr *frame, s Str, pos int, op syntax.EmptyOp) bool {
	if op == 0 {
		return true
	}
	end := len(s.S)
	isNL := func(i int) bool { // byte i is '\n'
		b := strByte(s, i)
		if b.T == nil {
			return b.V == '\n'
		}
		return in.ex.Branch(in.tb.Eq(b.T, in.tb.Const(SoBV8, '\n')))
	}
	if op&syntax.EmptyBeginText != 0 && pos != 0 {
		return false
	}
	if op&syntax.EmptyEndText != 0 && pos != end {
		return false
	}
	if op&syntax.EmptyBeginLine != 0 && !(pos == 0 || isNL(pos-1)) {
		return false
	}
	if op&syntax.EmptyEndLine != 0 && !(pos == end || isNL(pos)) {
		return false
	}
	if op&(syntax.EmptyWordBoundary|syntax.EmptyNoWordBoundary) != 0 {
		if !s.IsConcrete() {
			in.unsupported("\\b on a symbolic subject")
		}
		r1, r2 := rune(-1), rune(-1)
		if pos > 0 {
			r1, _ = utf8.DecodeLastRuneInString(s.S[:pos])
		}
		if pos < end {
			r2, _ = utf8.DecodeRuneInString(s.S[pos:])
		}
		flags := syntax.EmptyOpContext(r1, r2)
		return flags&op&(syntax.EmptyWordBoundary|syntax.EmptyNoWordBoundary) == op&(syntax.EmptyWordBoundary|syntax.EmptyNoWordBoundary)
	}
	return true
}

func (in *Interp) tryBacktrack(fr *frame, prog *syntax.Prog, s Str, pc uint32, pos int, capv, matchcap []int, visited map[[2]int]bool) bool {
	var jobs []btJob
	// push mirrors bitState.push: a job is queued unless it targets InstFail
	// or (for arg==false) the (pc,pos) state has been visited already.
	push := func(pc uint32, pos int, arg bool) {
		if prog.Inst[pc].Op == syntax.InstFail {
			return
		}
		if !arg {
			k := [2]int{int(pc), pos}
			if visited[k] {
				return
			}
			visited[k] = true
		}
		jobs = append(jobs, btJob{pc: pc, arg: arg, pos: pos})
	}
	push(pc, pos, false)
	for len(jobs) > 0 {
		l := len(jobs) - 1
		pc, pos, arg := jobs[l].pc, jobs[l].pos, jobs[l].arg
		jobs = jobs[:l]
		skipCheck := true // first iteration skips the visited check, as in the original's goto Skip
		for {
			if !skipCheck {
				k := [2]int{int(pc), pos}
				if visited[k] {
					break
				}
				visited[k] = true
			}
			skipCheck = false
			in.steps += 4
			if in.steps > in.budget {
				in.abort("budget", "step budget exhausted in regexp", fr.site())
			}
			inst := &prog.Inst[pc]
			switch inst.Op {
			case syntax.InstFail:
				goto nextJob
			case syntax.InstAlt:
				if arg {
					arg = false
					pc = inst.Arg
					continue
				}
				push(pc, pos, true)
				pc = inst.Out
				continue
			case syntax.InstAltMatch:
				switch prog.Inst[inst.Out].Op {
				case syntax.InstRune, syntax.InstRune1, syntax.InstRuneAny, syntax.InstRuneAnyNotNL:
					push(inst.Arg, pos, false)
					pc = inst.Arg
					pos = len(s.S)
					continue
				}
				push(inst.Out, len(s.S), false)
				pc = inst.Out
				continue
			case syntax.InstRune, syntax.InstRune1, syntax.InstRuneAny, syntax.InstRuneAnyNotNL:
				if pos >= len(s.S) {
					goto nextJob
				}
				r, width := in.reStep(s, pos)
				if !in.matchRune(inst, r) {
					goto nextJob
				}
				pos += width
				pc = inst.Out
				continue
			case syntax.InstCapture:
				if arg {
					capv[inst.Arg] = pos
					goto nextJob
				}
				if inst.Arg < uint32(len(capv)) {
					push(pc, capv[inst.Arg], true)
					capv[inst.Arg] = pos
				}
				pc = inst.Out
				continue
			case syntax.InstEmptyWidth:
				if !in.emptyOK(fr, s, pos, syntax.EmptyOp(inst.Arg)) {
					goto nextJob
				}
				pc = inst.Out
				continue
			case syntax.InstNop:
				pc = inst.Out
				continue
			case syntax.InstMatch:
				if len(capv) == 0 {
					return true
				}
				if len(capv) > 1 {
					capv[1] = pos
				}
				if old := matchcap[1]; old == -1 {
					copy(matchcap, capv)
				}
				return true
			default:
				panic("bad inst")
			}
		}
	nextJob:
	}
	return false
}

func (in *Interp) strSliceValue(parts []Str) Slice {
	b := make([]Value, len(parts))
	for i, p := range parts {
		b[i] = p
	}
	return Slice{B: b, L: len(b)}
}

func (in *Interp) submatchStrings(s Str, m []int) []Str {
	out := make([]Str, len(m)/2)
	for i := range out {
		if m[2*i] >= 0 {
			out[i] = s.sliceStr(m[2*i], m[2*i+1])
		}
	}
	return out
}

func reFindStringSubmatch(in *Interp, fr *frame, fn *ssa.Function, a []Value) (Value, bool) {
	r := a[0].(Native).X.(*reNative)
	s := a[1].(Str)
	if s.IsConcrete() {
		m := r.re.FindStringSubmatch(s.S)
		if m == nil {
			return Slice{}, true
		}
		parts := make([]Str, len(m))
		for i, x := range m {
			parts[i] = Str{S: x}
		}
		return in.strSliceValue(parts), true
	}
	m := in.reExec(fr, r, s, 0, r.numCap)
	if m == nil {
		return Slice{}, true
	}
	return in.strSliceValue(in.submatchStrings(s, m)), true
}

func reFindAllStringSubmatch(in *Interp, fr *frame, fn *ssa.Function, a []Value) (Value, bool) {
	r := a[0].(Native).X.(*reNative)
	s := a[1].(Str)
	n := int(in.concInt(fr, a[2], "FindAll n"))
	if s.IsConcrete() {
		ms := r.re.FindAllStringSubmatch(s.S, n)
		if ms == nil {
			return Slice{}, true
		}
		out := make([]Value, len(ms))
		for i, m := range ms {
			parts := make([]Str, len(m))
			for j, x := range m {
				parts[j] = Str{S: x}
			}
			out[i] = in.strSliceValue(parts)
		}
		return Slice{B: out, L: len(out)}, true
	}
	out := in.portFindAll(fr, r, s, n)
	if out == nil {
		return Slice{}, true
	}
	vals := make([]Value, len(out))
	for i, m := range out {
		vals[i] = in.strSliceValue(m)
	}
	return Slice{B: vals, L: len(vals)}, true
}

// portFindAll is regexp.(*Regexp).FindAllStringSubmatch on the port.
func (in *Interp) portFindAll(fr *frame, r *reNative, s Str, n int) [][]Str {
	if n < 0 {
		n = len(s.S) + 1
	}
	var out [][]Str
	end := len(s.S)
	for pos, i, prevMatchEnd := 0, 0, -1; i < n && pos <= end; {
		m := in.reExec(fr, r, s, pos, r.numCap)
		if len(m) == 0 {
			break
		}
		accept := true
		if m[1] == pos {
			if m[0] == prevMatchEnd {
				accept = false
			}
			_, width := in.reStep(s, pos)
			if width > 0 {
				pos += width
			} else {
				pos = end + 1
			}
		} else {
			pos = m[1]
		}
		prevMatchEnd = m[1]
		if accept {
			out = append(out, in.submatchStrings(s, m))
			i++
		}
	}
	return out
}

func (in *Interp) reReplaceAll(fr *frame, r *reNative, src Str, repl func(match Str) Str) Str {
	lastMatchEnd, searchPos := 0, 0
	end := len(src.S)
	buf := Str{}
	for searchPos <= end {
		a := in.reExec(fr, r, src, searchPos, 2)
		if len(a) == 0 {
			break
		}
		buf = concatStr(buf, src.sliceStr(lastMatchEnd, a[0]))
		if a[1] > lastMatchEnd || a[0] == 0 {
			buf = concatStr(buf, repl(src.sliceStr(a[0], a[1])))
		}
		lastMatchEnd = a[1]
		width := 0
		if searchPos < end {
			_, width = in.reStep(src, searchPos)
		}
		if searchPos+width > a[1] {
			searchPos += width
		} else if searchPos+1 > a[1] {
			searchPos++
		} else {
			searchPos = a[1]
		}
	}
	return concatStr(buf, src.sliceStr(lastMatchEnd, end))
}

func reReplaceAllString(in *Interp, fr *frame, fn *ssa.Function, a []Value) (Value, bool) {
	r := a[0].(Native).X.(*reNative)
	src, repl := a[1].(Str), a[2].(Str)
	if !repl.IsConcrete() {
		in.unsupported("symbolic replacement template")
	}
	if src.IsConcrete() {
		return Str{S: r.re.ReplaceAllString(src.S, repl.S)}, true
	}
	for i := 0; i < len(repl.S); i++ {
		if repl.S[i] == '$' {
			in.unsupported("replacement template with $")
		}
	}
	return in.reReplaceAll(fr, r, src, func(Str) Str { return repl }), true
}

func reReplaceAllStringFunc(in *Interp, fr *frame, fn *ssa.Function, a []Value) (Value, bool) {
	r := a[0].(Native).X.(*reNative)
	src := a[1].(Str)
	f := a[2]
	return in.reReplaceAll(fr, r, src, func(m Str) Str {
		return in.call(fr, f, []Value{m}).(Str)
	}), true
}
