package main

// If-conversion: when a branch on a symbolic condition opens a small acyclic
// region of side-effect-free blocks that re-converges, the region is
// evaluated once with guards and its phis become ite terms, instead of
// forking the path. Anything outside the safe instruction set falls back to
// an ordinary fork; nothing observable is executed speculatively.

import (
	"go/token"
	"go/types"

	"golang.org/x/tools/go/ssa"
)

const ifconvMaxBlocks = 12

type edgeIn struct {
	from  *ssa.BasicBlock
	guard *Term
}

func basicOperand(t types.Type) bool {
	_, ok := t.Underlying().(*types.Basic)
	return ok
}

// specInstr executes a pure instruction speculatively; ok=false if the
// instruction is not in the safe set (or would trap).
func (in *Interp) specInstr(fr *frame, ins ssa.Instruction) bool {
	switch x := ins.(type) {
	case *ssa.DebugRef:
		return true
	case *ssa.BinOp:
		if !basicOperand(x.X.Type()) || !basicOperand(x.Y.Type()) {
			return false
		}
		if x.Op == token.QUO || x.Op == token.REM {
			y, ok := fr.get(x.Y).(SInt)
			if !ok || y.T != nil || y.V == 0 {
				if _, isF := fr.get(x.Y).(SFloat); !isF {
					return false
				}
			}
		}
		if _, isStr := fr.get(x.X).(Str); isStr && x.Op != token.EQL && x.Op != token.NEQ && x.Op != token.ADD {
			return false
		}
		fr.set(x, in.binop(fr, x.Op, x.X.Type(), fr.get(x.X), fr.get(x.Y)))
		return true
	case *ssa.UnOp:
		switch x.Op {
		case token.NOT, token.SUB, token.XOR:
			fr.set(x, in.unop(fr, x, fr.get(x.X)))
			return true
		case token.MUL:
			p, ok := fr.get(x.X).(Ptr)
			if !ok || p == nil {
				return false
			}
			fr.set(x, copyVal(*p))
			return true
		}
		return false
	case *ssa.Convert:
		_, _, ok1 := intWidth(x.Type())
		_, _, ok2 := intWidth(x.X.Type())
		if !(ok1 || isFloatType(x.Type())) || !(ok2 || isFloatType(x.X.Type())) {
			return false
		}
		if f, isF := fr.get(x.X).(SFloat); isF && f.T != nil && ok1 {
			w, _, _ := intWidth(x.Type())
			if w != 64 {
				return false
			}
		}
		fr.set(x, in.conv(fr, x.Type(), x.X.Type(), fr.get(x.X)))
		return true
	case *ssa.ChangeType:
		fr.set(x, fr.get(x.X))
		return true
	case *ssa.Field:
		fr.set(x, fr.get(x.X).(Struct)[x.Field])
		return true
	case *ssa.FieldAddr:
		p, ok := fr.get(x.X).(Ptr)
		if !ok || p == nil {
			return false
		}
		fr.set(x, Ptr(&(*p).(Struct)[x.Field]))
		return true
	case *ssa.Index:
		i, ok := fr.get(x.Index).(SInt)
		if !ok || i.T != nil {
			return false
		}
		switch c := fr.get(x.X).(type) {
		case Str:
			if i.V >= uint64(len(c.S)) {
				return false
			}
			fr.set(x, strByte(c, int(i.V)))
			return true
		case Array:
			if i.V >= uint64(len(c)) {
				return false
			}
			fr.set(x, c[i.V])
			return true
		}
		return false
	case *ssa.IndexAddr:
		i, ok := fr.get(x.Index).(SInt)
		if !ok || i.T != nil {
			return false
		}
		switch c := fr.get(x.X).(type) {
		case Slice:
			if i.V >= uint64(c.L) {
				return false
			}
			fr.set(x, Ptr(&c.B[i.V]))
			return true
		case Ptr:
			if c == nil {
				return false
			}
			a := (*c).(Array)
			if i.V >= uint64(len(a)) {
				return false
			}
			fr.set(x, Ptr(&a[i.V]))
			return true
		}
		return false
	case *ssa.Call:
		if b, ok := x.Call.Value.(*ssa.Builtin); ok && (b.Name() == "len" || b.Name() == "cap") && len(x.Call.Args) == 1 {
			switch fr.get(x.Call.Args[0]).(type) {
			case Str, Slice, Array:
				fr.set(x, in.callBuiltin(fr, b, []Value{fr.get(x.Call.Args[0])}))
				return true
			}
		}
		return false
	}
	return false
}

// mergeVals builds ite(g, a, b) for scalar values; ok=false if they cannot be merged.
func (in *Interp) mergeVals(g *Term, a, b Value) (Value, bool) {
	tb := in.tb
	switch x := a.(type) {
	case SInt:
		y, ok := b.(SInt)
		if !ok || x.W != y.W {
			return nil, false
		}
		return in.mkIntT(tb.Ite(g, in.intTerm(x), in.intTerm(y))), true
	case SBool:
		y, ok := b.(SBool)
		if !ok {
			return nil, false
		}
		return in.mkBool(tb.Ite(g, in.boolTerm(x), in.boolTerm(y))), true
	case SFloat:
		y, ok := b.(SFloat)
		if !ok {
			return nil, false
		}
		if x.T == nil && y.T == nil && x.V == y.V {
			return x, true
		}
		return in.mkFloatT(tb.Ite(g, in.floatTerm(x), in.floatTerm(y))), true
	case Str:
		y, ok := b.(Str)
		if !ok || len(x.S) != len(y.S) {
			return nil, false
		}
		if x.Sym == nil && y.Sym == nil && x.S == y.S {
			return x, true
		}
		sym := make([]*Term, len(x.S))
		buf := []byte(x.S)
		for i := range sym {
			t := tb.Ite(g, in.byteTerm(x, i), in.byteTerm(y, i))
			if t.op == OpConst {
				buf[i] = byte(t.c)
			} else {
				sym[i] = t
			}
		}
		return Str{S: string(buf), Sym: sym}.norm(), true
	case Ptr:
		y, ok := b.(Ptr)
		if ok && x == y {
			return x, true
		}
	case nil:
		if b == nil {
			return nil, true
		}
	}
	return nil, false
}

// tryIfConvert attempts to evaluate the region opened by the symbolic branch
// at the end of fr.block. On success fr.block/fr.prev are positioned at the
// join block with its phis already computed.
func (in *Interp) tryIfConvert(fr *frame, instr *ssa.If, cond *Term) bool {
	if in.sched != nil && in.sched.monitor != nil {
		return false
	}
	tb := in.tb
	B := fr.block
	pending := map[*ssa.BasicBlock][]edgeIn{}
	var pendOrder []*ssa.BasicBlock
	addEdge := func(from, to *ssa.BasicBlock, g *Term) {
		if _, ok := pending[to]; !ok {
			pendOrder = append(pendOrder, to)
		}
		pending[to] = append(pending[to], edgeIn{from, g})
	}
	addEdge(B, B.Succs[0], cond)
	addEdge(B, B.Succs[1], tb.Not(cond))
	done := map[*ssa.BasicBlock]bool{B: true}
	nblocks := 0
	// values of region phis are written only after the whole block's phis are computed
	for {
		// pick an internal block: all of its predecessors are done
		var X *ssa.BasicBlock
		for _, c := range pendOrder {
			if _, ok := pending[c]; !ok {
				continue
			}
			all := true
			for _, p := range c.Preds {
				if !done[p] {
					all = false
					break
				}
			}
			// all edges from done preds must have arrived (or been pruned by
			// concrete conditions)
			if all {
				X = c
				break
			}
		}
		live := 0
		for range pending {
			live++
		}
		if live == 1 && (X == nil || len(pending[X]) > 0) {
			// single pending block: it is the join (even if all preds done)
			for j := range pending {
				return in.enterJoin(fr, j, pending[j])
			}
		}
		if X == nil {
			return false
		}
		nblocks++
		if nblocks > ifconvMaxBlocks || done[X] {
			return false
		}
		edges := pending[X]
		delete(pending, X)
		g, ok := in.computePhis(fr, X, edges)
		if !ok {
			return false
		}
		done[X] = true
		for _, ins := range X.Instrs {
			switch t := ins.(type) {
			case *ssa.Phi:
				continue
			case *ssa.Jump:
				if done[X.Succs[0]] {
					return false
				}
				addEdge(X, X.Succs[0], g)
			case *ssa.If:
				c, ok := fr.get(t.Cond).(SBool)
				if !ok {
					return false
				}
				if done[X.Succs[0]] || done[X.Succs[1]] {
					return false
				}
				ct := in.boolTerm(c)
				if g1 := tb.And(g, ct); !(g1.op == OpConst && g1.c == 0) {
					addEdge(X, X.Succs[0], g1)
				}
				if g2 := tb.And(g, tb.Not(ct)); !(g2.op == OpConst && g2.c == 0) {
					addEdge(X, X.Succs[1], g2)
				}
			default:
				in.steps++
				if !in.specInstr(fr, ins) {
					return false
				}
			}
		}
	}
}

// computePhis merges the phis of block X over the incoming region edges and
// returns the block's guard.
func (in *Interp) computePhis(fr *frame, X *ssa.BasicBlock, edges []edgeIn) (*Term, bool) {
	tb := in.tb
	g := tb.Bool(false)
	for _, e := range edges {
		g = tb.Or(g, e.guard)
	}
	var vals []Value
	var phis []*ssa.Phi
	for _, ins := range X.Instrs {
		phi, ok := ins.(*ssa.Phi)
		if !ok {
			break
		}
		var acc Value
		for k := len(edges) - 1; k >= 0; k-- {
			e := edges[k]
			idx := -1
			for i, p := range X.Preds {
				if p == e.from {
					idx = i
					break
				}
			}
			if idx < 0 {
				return nil, false
			}
			v := fr.get(phi.Edges[idx])
			if k == len(edges)-1 {
				acc = v
				continue
			}
			m, ok := in.mergeVals(e.guard, v, acc)
			if !ok {
				return nil, false
			}
			acc = m
		}
		vals = append(vals, acc)
		phis = append(phis, phi)
	}
	for i, phi := range phis {
		fr.set(phi, vals[i])
	}
	return g, true
}

func (in *Interp) enterJoin(fr *frame, J *ssa.BasicBlock, edges []edgeIn) bool {
	if len(edges) == 0 {
		return false
	}
	if _, ok := in.computePhis(fr, J, edges); !ok {
		return false
	}
	fr.prev = edges[0].from
	fr.block = J
	fr.skipPhis = true
	return true
}
