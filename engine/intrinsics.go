package main

import (
	"fmt"
	"go/token"
	"go/types"
	"math"
	"strings"
	"unicode"

	"golang.org/x/tools/go/ssa"
)

type ssa_Global = ssa.Global
type ssa_Function = ssa.Function

const tokenLSS = token.LSS

type intrinsic func(in *Interp, fr *frame, fn *ssa.Function, args []Value) (Value, bool)

var intrinsics map[string]intrinsic

func init() {
	intrinsics = map[string]intrinsic{
		// ---- verifrt
		"servitor/verifrt.Byte":    vrByte,
		"servitor/verifrt.Rune":    vrRune,
		"servitor/verifrt.Int":     vrInt,
		"servitor/verifrt.Int64":   vrInt64,
		"servitor/verifrt.Uint64":  vrUint64,
		"servitor/verifrt.Float64": vrFloat64,
		"servitor/verifrt.Bool":    vrBool,
		"servitor/verifrt.Choice":  vrChoice,
		"servitor/verifrt.Bytes":   vrBytes,
		"servitor/verifrt.Assume":  vrAssume,
		"servitor/verifrt.Assert":  vrAssert,
		"servitor/verifrt.Reach":   vrReach,
		"servitor/verifrt.Observe": vrObserve,
		"servitor/verifrt.Settle":  vrSettle,
		"servitor/verifrt.Concrete": vrConcrete,
		"servitor/verifrt.Symbolic": func(in *Interp, fr *frame, fn *ssa.Function, a []Value) (Value, bool) { return SBool{V: true}, true },
		"servitor/verifrt.JSON":    vrJSON,
		"servitor/verifrt.Hang": func(in *Interp, fr *frame, fn *ssa.Function, a []Value) (Value, bool) {
			in.cur.fr = fr
			in.abort("hang", "blocks forever: "+argStr(a[0]), fr.servitorSite())
			return nil, true
		},
		"servitor/verifrt.ExploreSchedules": func(in *Interp, fr *frame, fn *ssa.Function, a []Value) (Value, bool) {
			in.sched.explore = a[0].(SBool).V && in.ex.cfg.ScheduleMode
			return nil, true
		},
		"servitor/verifrt.All":     vrAll,
		"servitor/verifrt.Any":     vrAny,
		"servitor/verifrt.InSet":   vrInSet,
		"servitor/verifrt.IteInt":  vrIteInt,

		// ---- utf8 (table-driven in the library; decoded symbolically here)
		"unicode/utf8.DecodeRuneInString": utf8DecodeStr,
		"unicode/utf8.DecodeRune":         utf8DecodeBytes,
		"unicode/utf8.RuneCountInString":  utf8CountStr,
		"unicode/utf8.ValidString":        utf8ValidStr,

		// ---- strings.Builder
		"(*strings.Builder).String":      sbString,
		"(*strings.Builder).Len":         sbLen,
		"(*strings.Builder).Cap":         sbCap,
		"(*strings.Builder).Reset":       sbReset,
		"(*strings.Builder).Grow":        sbGrow,
		"(*strings.Builder).Write":       sbWrite,
		"(*strings.Builder).WriteByte":   sbWriteByte,
		"(*strings.Builder).WriteRune":   sbWriteRune,
		"(*strings.Builder).WriteString": sbWriteString,

		// ---- byte searching leaves
		"internal/stringslite.Index":       strIndex,
		"internal/stringslite.IndexByte":   strIndexByte,
		"internal/bytealg.IndexByteString": strIndexByte,
		"internal/bytealg.IndexString":     strIndex,
		"internal/bytealg.CountString":     strCountByte,
		"strings.Index":                    strIndex,
		"strings.IndexByte":                strIndexByte,
		"strings.Count":                    strCount,
		"internal/bytealg.IndexByte":       bytesIndexByte,
		"bytes.IndexByte":                  bytesIndexByte,
		"internal/bytealg.MakeNoZero":      makeNoZero,
		"internal/stringslite.Clone":       func(in *Interp, fr *frame, fn *ssa.Function, a []Value) (Value, bool) { return a[0], true },
		"strings.Clone":                    func(in *Interp, fr *frame, fn *ssa.Function, a []Value) (Value, bool) { return a[0], true },

		// ---- unicode predicates
		"unicode.IsSpace":   uniPred(unicode.IsSpace, unicode.White_Space),
		"unicode.IsControl": uniPred(unicode.IsControl, unicode.Cc),
		"unicode.IsLetter":  uniPred(unicode.IsLetter, unicode.L),
		"unicode.IsDigit":   uniPred(unicode.IsDigit, unicode.Nd),
		"unicode.IsUpper":   uniPred(unicode.IsUpper, unicode.Upper),
		"unicode.IsLower":   uniPred(unicode.IsLower, unicode.Lower),
		"unicode.ToLower":   uniToLower,

		// ---- sync
		"(*sync.Mutex).Lock":      syncLock,
		"(*sync.Mutex).Unlock":    syncUnlock,
		"(*sync.RWMutex).Lock":    syncLock,
		"(*sync.RWMutex).Unlock":  syncUnlock,
		"(*sync.RWMutex).RLock":   syncLock,
		"(*sync.RWMutex).RUnlock": syncUnlock,
		"(*sync.WaitGroup).Add":   wgAdd,
		"(*sync.WaitGroup).Done":  wgDone,
		"(*sync.WaitGroup).Wait":  wgWait,
		"(*sync.Once).Do":         onceDo,
		// singleflight: one interpreted goroutine runs at a time and fetches do
		// not block inside the engine, so a call is never in flight when
		// another arrives: Do runs the function, Forget has nothing to drop
		"(*golang.org/x/sync/singleflight.Group).Do": func(in *Interp, fr *frame, fn *ssa.Function, a []Value) (Value, bool) {
			r := in.call(fr, a[2], nil).(Tuple)
			return Tuple{r[0], r[1], SBool{V: false}}, true
		},
		"(*golang.org/x/sync/singleflight.Group).Forget": func(in *Interp, fr *frame, fn *ssa.Function, a []Value) (Value, bool) {
			return nil, true
		},

		// ---- errors / fmt / math
		"errors.Is":   errorsIs,
		"errors.As":   errorsAs,
		"fmt.Sprintf": fmtSprintf,
		"fmt.Errorf":  fmtErrorf,
		"fmt.Sprint":  fmtSprint,
		"math.Trunc":  mathTrunc,
		"math.Floor":       mathRound(OpFpRTN),
		"math.Ceil":        mathRound(OpFpRTP),
		"math.RoundToEven": mathRound(OpFpRNE),
		"math.Round":       mathRound(OpFpRNA),
		"math.Abs":         mathRound(OpFpAbs),
		"strconv.Itoa": func(in *Interp, fr *frame, fn *ssa.Function, a []Value) (Value, bool) {
			x := a[0].(SInt)
			if x.T == nil {
				return nil, false
			}
			return in.symItoa(x, true), true
		},
		"strconv.FormatInt": func(in *Interp, fr *frame, fn *ssa.Function, a []Value) (Value, bool) {
			x, b := a[0].(SInt), a[1].(SInt)
			if x.T == nil || b.T != nil || b.V != 10 {
				return nil, false
			}
			return in.symItoa(x, true), true
		},
		"strconv.FormatUint": func(in *Interp, fr *frame, fn *ssa.Function, a []Value) (Value, bool) {
			x, b := a[0].(SInt), a[1].(SInt)
			if x.T == nil || b.T != nil || b.V != 10 {
				return nil, false
			}
			return in.symItoa(x, false), true
		},
		"math.Float64bits": func(in *Interp, fr *frame, fn *ssa.Function, a []Value) (Value, bool) {
			f := a[0].(SFloat)
			if f.T != nil {
				in.unsupported("math.Float64bits of a symbolic float")
			}
			return mkInt(64, math.Float64bits(f.V)), true
		},
	}
	registerRegexpIntrinsics()
	registerEnvIntrinsics()
}

// ---- verifrt

func argStr(v Value) string { return v.(Str).S }

func vrByte(in *Interp, fr *frame, fn *ssa.Function, a []Value) (Value, bool) {
	t := in.ex.input(argStr(a[0]), SoBV8)
	return SInt{W: 8, T: t}, true
}

func vrRune(in *Interp, fr *frame, fn *ssa.Function, a []Value) (Value, bool) {
	t := in.ex.input(argStr(a[0]), SoBV32)
	tb := in.tb
	c := func(v uint64) *Term { return tb.Const(SoBV32, v) }
	valid := tb.And(tb.Bin(OpBvUle, t, c(0x10FFFF)),
		tb.Not(tb.And(tb.Bin(OpBvUle, c(0xD800), t), tb.Bin(OpBvUle, t, c(0xDFFF)))))
	in.ex.Assume(valid)
	return SInt{W: 32, T: t}, true
}

func vrInt(in *Interp, fr *frame, fn *ssa.Function, a []Value) (Value, bool) {
	lo, hi := a[1].(SInt).Signed(), a[2].(SInt).Signed()
	if lo == hi {
		in.ex.freshName(argStr(a[0]))
		return mkInt64(lo), true
	}
	t := in.ex.input(argStr(a[0]), SoBV64)
	tb := in.tb
	in.ex.Assume(tb.And(tb.Bin(OpBvSle, tb.Const(SoBV64, uint64(lo)), t), tb.Bin(OpBvSle, t, tb.Const(SoBV64, uint64(hi)))))
	return SInt{W: 64, T: t}, true
}

func vrInt64(in *Interp, fr *frame, fn *ssa.Function, a []Value) (Value, bool) {
	return SInt{W: 64, T: in.ex.input(argStr(a[0]), SoBV64)}, true
}
func vrUint64(in *Interp, fr *frame, fn *ssa.Function, a []Value) (Value, bool) {
	return SInt{W: 64, T: in.ex.input(argStr(a[0]), SoBV64)}, true
}
func vrFloat64(in *Interp, fr *frame, fn *ssa.Function, a []Value) (Value, bool) {
	return SFloat{W: 64, T: in.ex.input(argStr(a[0]), SoFP64)}, true
}
func vrBool(in *Interp, fr *frame, fn *ssa.Function, a []Value) (Value, bool) {
	return SBool{T: in.ex.input(argStr(a[0]), SoBool)}, true
}

// Choice(name, n): a symbolic int in [0,n) that is concretised at once.
func vrChoice(in *Interp, fr *frame, fn *ssa.Function, a []Value) (Value, bool) {
	n := a[1].(SInt).Signed()
	if n <= 1 {
		in.ex.freshName(argStr(a[0]))
		return mkInt64(0), true
	}
	t := in.ex.input(argStr(a[0]), SoBV64)
	k := in.ex.Choice(int(n))
	in.ex.Bind(t, uint64(k))
	return mkInt64(int64(k)), true
}

func vrBytes(in *Interp, fr *frame, fn *ssa.Function, a []Value) (Value, bool) {
	n := int(in.concInt(fr, a[1], "Bytes length"))
	name := argStr(a[0])
	sym := make([]*Term, n)
	for i := range sym {
		sym[i] = in.ex.input(name, SoBV8)
	}
	return Str{S: string(make([]byte, n)), Sym: sym}.norm(), true
}

func vrAssume(in *Interp, fr *frame, fn *ssa.Function, a []Value) (Value, bool) {
	in.ex.Assume(in.boolTerm(a[0].(SBool)))
	return nil, true
}

func vrAssert(in *Interp, fr *frame, fn *ssa.Function, a []Value) (Value, bool) {
	in.cur.fr = fr
	in.ex.Assert(in.boolTerm(a[0].(SBool)), argStr(a[1]))
	return nil, true
}

func vrReach(in *Interp, fr *frame, fn *ssa.Function, a []Value) (Value, bool) {
	in.ex.reached[argStr(a[0])] = true
	return nil, true
}

func vrObserve(in *Interp, fr *frame, fn *ssa.Function, a []Value) (Value, bool) {
	in.observations = append(in.observations, Observation{Name: argStr(a[0]), Val: in.resolveIface(fr, a[1])})
	return nil, true
}

func vrSettle(in *Interp, fr *frame, fn *ssa.Function, a []Value) (Value, bool) {
	in.cur.fr = fr
	in.settle()
	return nil, true
}

func vrConcrete(in *Interp, fr *frame, fn *ssa.Function, a []Value) (Value, bool) {
	return mkInt64(in.concInt(fr, a[0], "Concrete")), true
}

// ---- strings.Builder (struct{addr *Builder; buf []byte})

func sbBuf(in *Interp, fr *frame, recv Value) *Value {
	p := recv.(Ptr)
	if p == nil {
		in.throw(fr, "invalid memory address or nil pointer dereference")
	}
	return &(*p).(Struct)[1]
}

var byteType = types.Typ[types.Uint8]

func (in *Interp) appendBytes(s Slice, add []Value) Slice {
	if len(add) == 0 {
		return s
	}
	newLen := s.L + len(add)
	if newLen <= len(s.B) {
		copy(s.B[s.L:newLen], add)
		return Slice{B: s.B, L: newLen}
	}
	nc := in.P.growCap(len(s.B), newLen, byteType)
	if nc < newLen {
		nc = newLen
	}
	b := make([]Value, nc)
	copy(b, s.B[:s.L])
	copy(b[s.L:], add)
	for i := newLen; i < nc; i++ {
		b[i] = SInt{W: 8}
	}
	return Slice{B: b, L: newLen}
}

func sbString(in *Interp, fr *frame, fn *ssa.Function, a []Value) (Value, bool) {
	s := (*sbBuf(in, fr, a[0])).(Slice)
	return in.bytesToStr(s.B[:s.L]), true
}
func sbLen(in *Interp, fr *frame, fn *ssa.Function, a []Value) (Value, bool) {
	return mkInt64(int64((*sbBuf(in, fr, a[0])).(Slice).L)), true
}
func sbCap(in *Interp, fr *frame, fn *ssa.Function, a []Value) (Value, bool) {
	return mkInt64(int64(len((*sbBuf(in, fr, a[0])).(Slice).B))), true
}
func sbReset(in *Interp, fr *frame, fn *ssa.Function, a []Value) (Value, bool) {
	*sbBuf(in, fr, a[0]) = Slice{}
	return nil, true
}
func sbGrow(in *Interp, fr *frame, fn *ssa.Function, a []Value) (Value, bool) {
	n := in.concInt(fr, a[1], "Builder.Grow")
	if n < 0 {
		panic(&targetPanic{v: Iface{T: types.Typ[types.String], V: Str{S: "strings.Builder.Grow: negative count"}}, msg: "strings.Builder.Grow: negative count", site: fr.servitorSite()})
	}
	if n > 1<<24 {
		in.abort("bound", "Builder.Grow beyond 16M", fr.site())
	}
	bp := sbBuf(in, fr, a[0])
	s := (*bp).(Slice)
	if len(s.B)-s.L < int(n) {
		nb := make([]Value, 2*len(s.B)+int(n))
		copy(nb, s.B[:s.L])
		for i := s.L; i < len(nb); i++ {
			nb[i] = SInt{W: 8}
		}
		*bp = Slice{B: nb, L: s.L}
	}
	return nil, true
}
func sbWrite(in *Interp, fr *frame, fn *ssa.Function, a []Value) (Value, bool) {
	bp := sbBuf(in, fr, a[0])
	add := a[1].(Slice)
	*bp = in.appendBytes((*bp).(Slice), add.B[:add.L])
	return Tuple{mkInt64(int64(add.L)), Iface{}}, true
}
func sbWriteByte(in *Interp, fr *frame, fn *ssa.Function, a []Value) (Value, bool) {
	bp := sbBuf(in, fr, a[0])
	*bp = in.appendBytes((*bp).(Slice), []Value{a[1]})
	return Iface{}, true
}
func sbWriteRune(in *Interp, fr *frame, fn *ssa.Function, a []Value) (Value, bool) {
	bp := sbBuf(in, fr, a[0])
	s := in.runeToStr(a[1].(SInt), types.Typ[types.Int32])
	*bp = in.appendBytes((*bp).(Slice), strToValues(s))
	return Tuple{mkInt64(int64(len(s.S))), Iface{}}, true
}
func sbWriteString(in *Interp, fr *frame, fn *ssa.Function, a []Value) (Value, bool) {
	bp := sbBuf(in, fr, a[0])
	s := a[1].(Str)
	*bp = in.appendBytes((*bp).(Slice), strToValues(s))
	return Tuple{mkInt64(int64(len(s.S))), Iface{}}, true
}

// ---- searching

func (in *Interp) indexOf(s, sub Str, from int) int {
	m := len(sub.S)
	if s.IsConcrete() && sub.IsConcrete() {
		i := strings.Index(s.S[from:], sub.S)
		if i < 0 {
			return -1
		}
		return i + from
	}
	for i := from; i+m <= len(s.S); i++ {
		if in.ex.Branch(in.strEqTerm(s.sliceStr(i, i+m), sub)) {
			return i
		}
	}
	return -1
}

func strIndex(in *Interp, fr *frame, fn *ssa.Function, a []Value) (Value, bool) {
	return mkInt64(int64(in.indexOf(a[0].(Str), a[1].(Str), 0))), true
}

func (in *Interp) indexByteVals(b []Value, c SInt) int {
	for i, v := range b {
		x := v.(SInt)
		if x.T == nil && c.T == nil {
			if x.V == c.V {
				return i
			}
			continue
		}
		if in.ex.Branch(in.tb.Eq(in.intTerm(x), in.intTerm(c))) {
			return i
		}
	}
	return -1
}

func strIndexByte(in *Interp, fr *frame, fn *ssa.Function, a []Value) (Value, bool) {
	s := a[0].(Str)
	c := a[1].(SInt)
	if s.IsConcrete() && c.T == nil {
		return mkInt64(int64(strings.IndexByte(s.S, byte(c.V)))), true
	}
	return mkInt64(int64(in.indexByteVals(strToValues(s), c))), true
}

func bytesIndexByte(in *Interp, fr *frame, fn *ssa.Function, a []Value) (Value, bool) {
	s := a[0].(Slice)
	return mkInt64(int64(in.indexByteVals(s.B[:s.L], a[1].(SInt)))), true
}

func strCountByte(in *Interp, fr *frame, fn *ssa.Function, a []Value) (Value, bool) {
	s := a[0].(Str)
	c := a[1].(SInt)
	n := 0
	for i := 0; i < len(s.S); i++ {
		x := strByte(s, i)
		if x.T == nil && c.T == nil {
			if x.V == c.V {
				n++
			}
			continue
		}
		if in.ex.Branch(in.tb.Eq(in.intTerm(x), in.intTerm(c))) {
			n++
		}
	}
	return mkInt64(int64(n)), true
}

func strCount(in *Interp, fr *frame, fn *ssa.Function, a []Value) (Value, bool) {
	s, sub := a[0].(Str), a[1].(Str)
	if s.IsConcrete() && sub.IsConcrete() {
		return mkInt64(int64(strings.Count(s.S, sub.S))), true
	}
	if len(sub.S) == 0 {
		return nil, false // rune count + 1: let the SSA handle it
	}
	n := 0
	for i := 0; ; {
		j := in.indexOf(s, sub, i)
		if j < 0 {
			break
		}
		n++
		i = j + len(sub.S)
	}
	return mkInt64(int64(n)), true
}

func makeNoZero(in *Interp, fr *frame, fn *ssa.Function, a []Value) (Value, bool) {
	n := int(in.concInt(fr, a[0], "MakeNoZero"))
	if n > 1<<24 {
		in.abort("bound", "MakeNoZero beyond 16M", fr.site())
	}
	b := make([]Value, n)
	for i := range b {
		b[i] = SInt{W: 8}
	}
	return Slice{B: b, L: n}, true
}

// ---- unicode

func (in *Interp) rangeTableTerm(r *Term, tab *unicode.RangeTable) *Term {
	tb := in.tb
	acc := tb.Bool(false)
	c := func(v uint64) *Term { return tb.Const(SoBV32, v) }
	add := func(lo, hi, stride uint64) {
		t := tb.And(tb.Bin(OpBvUle, c(lo), r), tb.Bin(OpBvUle, r, c(hi)))
		if stride != 1 {
			t = tb.And(t, tb.Eq(tb.Bin(OpBvURem, tb.Bin(OpBvSub, r, c(lo)), c(stride)), c(0)))
		}
		acc = tb.Or(acc, t)
	}
	for _, x := range tab.R16 {
		add(uint64(x.Lo), uint64(x.Hi), uint64(x.Stride))
	}
	for _, x := range tab.R32 {
		add(uint64(x.Lo), uint64(x.Hi), uint64(x.Stride))
	}
	return acc
}

func uniPred(native func(rune) bool, tab *unicode.RangeTable) intrinsic {
	return func(in *Interp, fr *frame, fn *ssa.Function, a []Value) (Value, bool) {
		r := a[0].(SInt)
		if r.T == nil {
			return SBool{V: native(rune(int32(r.V)))}, true
		}
		return in.mkBool(in.rangeTableTerm(r.T, tab)), true
	}
}

func uniToLower(in *Interp, fr *frame, fn *ssa.Function, a []Value) (Value, bool) {
	r := a[0].(SInt)
	if r.T == nil {
		return mkInt(32, uint64(uint32(unicode.ToLower(rune(int32(r.V)))))), true
	}
	tb := in.tb
	c := func(v uint64) *Term { return tb.Const(SoBV32, v) }
	if !in.ex.Branch(tb.Bin(OpBvUlt, r.T, c(0x80))) {
		in.unsupported("unicode.ToLower of a symbolic non-ASCII rune")
	}
	up := tb.And(tb.Bin(OpBvUle, c('A'), r.T), tb.Bin(OpBvUle, r.T, c('Z')))
	return in.mkIntT(tb.Ite(up, tb.Bin(OpBvAdd, r.T, c(32)), r.T)), true
}

// ---- sync

func syncLock(in *Interp, fr *frame, fn *ssa.Function, a []Value) (Value, bool) {
	in.cur.fr = fr
	in.lock(fr, a[0].(Ptr))
	return nil, true
}
func syncUnlock(in *Interp, fr *frame, fn *ssa.Function, a []Value) (Value, bool) {
	in.cur.fr = fr
	in.unlock(fr, a[0].(Ptr))
	return nil, true
}
func wgAdd(in *Interp, fr *frame, fn *ssa.Function, a []Value) (Value, bool) {
	w := in.wg(a[0].(Ptr))
	w.n += in.concInt(fr, a[1], "WaitGroup.Add")
	if w.n < 0 {
		panic(&targetPanic{v: Iface{}, msg: "sync: negative WaitGroup counter", site: fr.servitorSite()})
	}
	return nil, true
}
func wgDone(in *Interp, fr *frame, fn *ssa.Function, a []Value) (Value, bool) {
	w := in.wg(a[0].(Ptr))
	w.n--
	if w.n < 0 {
		panic(&targetPanic{v: Iface{}, msg: "sync: negative WaitGroup counter", site: fr.servitorSite()})
	}
	vcJoin(w.vc, in.cur.vc)
	in.cur.vc[in.cur.id]++
	return nil, true
}
func wgWait(in *Interp, fr *frame, fn *ssa.Function, a []Value) (Value, bool) {
	in.cur.fr = fr
	w := in.wg(a[0].(Ptr))
	in.waitUntil(func() bool { return w.n == 0 }, "WaitGroup.Wait")
	vcJoin(in.cur.vc, w.vc)
	return nil, true
}
func onceDo(in *Interp, fr *frame, fn *ssa.Function, a []Value) (Value, bool) {
	p := a[0].(Ptr)
	if !in.sched.onces[p] {
		in.sched.onces[p] = true
		in.call(fr, a[1], nil)
	}
	return nil, true
}

// ---- errors.Is (re-implementation of the documented algorithm; the
// Is/Unwrap methods it calls are interpreted)

func (in *Interp) callMethod(fr *frame, recv Iface, name string, args ...Value) (Value, bool) {
	ms := in.P.prog.MethodSets.MethodSet(recv.T)
	for i := 0; i < ms.Len(); i++ {
		sel := ms.At(i)
		if sel.Obj().Name() == name {
			f := in.P.prog.MethodValue(sel)
			if f == nil {
				return nil, false
			}
			return in.call(fr, f, append([]Value{recv.V}, args...)), true
		}
	}
	return nil, false
}

func (in *Interp) methodSig(t types.Type, name string) *types.Signature {
	ms := in.P.prog.MethodSets.MethodSet(t)
	for i := 0; i < ms.Len(); i++ {
		if ms.At(i).Obj().Name() == name {
			return ms.At(i).Type().(*types.Signature)
		}
	}
	return nil
}

func errorsIs(in *Interp, fr *frame, fn *ssa.Function, a []Value) (Value, bool) {
	err := in.resolveIface(fr, a[0])
	target := in.resolveIface(fr, a[1])
	if err.T == nil || target.T == nil {
		return SBool{V: err.T == nil && target.T == nil}, true
	}
	comparable := types.Comparable(target.T)
	return SBool{V: in.errIs(fr, err, target, comparable)}, true
}

func (in *Interp) errIs(fr *frame, err, target Iface, comparable bool) bool {
	for {
		if comparable && types.Identical(err.T, target.T) {
			if in.truth(in.equals(fr, err.T, err.V, target.V)) {
				return true
			}
		}
		if sig := in.methodSig(err.T, "Is"); sig != nil && sig.Params().Len() == 1 && sig.Results().Len() == 1 && isBoolType(sig.Results().At(0).Type()) {
			r, _ := in.callMethod(fr, err, "Is", target)
			if in.truth(r.(SBool)) {
				return true
			}
		}
		sig := in.methodSig(err.T, "Unwrap")
		if sig == nil || sig.Params().Len() != 0 || sig.Results().Len() != 1 {
			return false
		}
		r, _ := in.callMethod(fr, err, "Unwrap")
		switch rt := sig.Results().At(0).Type().Underlying().(type) {
		case *types.Interface:
			next := in.resolveIface(fr, r)
			if next.T == nil {
				return false
			}
			err = next
		case *types.Slice:
			_ = rt
			s := r.(Slice)
			for i := 0; i < s.L; i++ {
				e := in.resolveIface(fr, s.B[i])
				if e.T != nil && in.errIs(fr, e, target, comparable) {
					return true
				}
			}
			return false
		default:
			return false
		}
	}
}

// errors.As from its documented contract: the first error in the chain that
// is assignable to the target's element type (or whose As method accepts the
// target) is stored there.
func errorsAs(in *Interp, fr *frame, fn *ssa.Function, a []Value) (Value, bool) {
	err := in.resolveIface(fr, a[0])
	target := in.resolveIface(fr, a[1])
	if target.T == nil {
		panic(&targetPanic{v: Iface{}, msg: "errors: target cannot be nil", site: fr.servitorSite()})
	}
	pt, isPtr := target.T.Underlying().(*types.Pointer)
	if !isPtr || target.V == nil || target.V.(Ptr) == nil {
		panic(&targetPanic{v: Iface{}, msg: "errors: target must be a non-nil pointer", site: fr.servitorSite()})
	}
	if err.T == nil {
		return SBool{V: false}, true
	}
	return SBool{V: in.errAs(fr, err, target, pt.Elem())}, true
}

func (in *Interp) errAs(fr *frame, err, target Iface, elem types.Type) bool {
	for {
		assignable := false
		if it, isI := elem.Underlying().(*types.Interface); isI {
			assignable = in.implements(err.T, it)
		} else {
			assignable = types.Identical(err.T, elem)
		}
		if assignable {
			p := target.V.(Ptr)
			if _, isI := elem.Underlying().(*types.Interface); isI {
				*p = err
			} else {
				*p = copyVal(err.V)
			}
			return true
		}
		if sig := in.methodSig(err.T, "As"); sig != nil && sig.Params().Len() == 1 && sig.Results().Len() == 1 && isBoolType(sig.Results().At(0).Type()) {
			r, _ := in.callMethod(fr, err, "As", target)
			if in.truth(r.(SBool)) {
				return true
			}
		}
		sig := in.methodSig(err.T, "Unwrap")
		if sig == nil || sig.Params().Len() != 0 || sig.Results().Len() != 1 {
			return false
		}
		r, _ := in.callMethod(fr, err, "Unwrap")
		switch sig.Results().At(0).Type().Underlying().(type) {
		case *types.Interface:
			next := in.resolveIface(fr, r)
			if next.T == nil {
				return false
			}
			err = next
		case *types.Slice:
			s := r.(Slice)
			for i := 0; i < s.L; i++ {
				e := in.resolveIface(fr, s.B[i])
				if e.T != nil && in.errAs(fr, e, target, elem) {
					return true
				}
			}
			return false
		default:
			return false
		}
	}
}

// ---- math

func mathTrunc(in *Interp, fr *frame, fn *ssa.Function, a []Value) (Value, bool) {
	f := a[0].(SFloat)
	if f.T == nil {
		return SFloat{V: math.Trunc(f.V), W: 64}, true
	}
	return in.mkFloatT(in.tb.FpUn(OpFpRTZ, f.T)), true
}

func mathRound(op Op) intrinsic {
	return func(in *Interp, fr *frame, fn *ssa.Function, a []Value) (Value, bool) {
		f := a[0].(SFloat)
		if f.T == nil {
			return SFloat{V: fpRoundConst(op, f.V), W: 64}, true
		}
		return in.mkFloatT(in.tb.FpUn(op, f.T)), true
	}
}

var _ = fmt.Sprintf

func vrAll(in *Interp, fr *frame, fn *ssa.Function, a []Value) (Value, bool) {
	acc := in.tb.Bool(true)
	for _, v := range variadicArgs(a[0]) {
		acc = in.tb.And(acc, in.boolTerm(v.(SBool)))
	}
	return in.mkBool(acc), true
}
func vrAny(in *Interp, fr *frame, fn *ssa.Function, a []Value) (Value, bool) {
	acc := in.tb.Bool(false)
	for _, v := range variadicArgs(a[0]) {
		acc = in.tb.Or(acc, in.boolTerm(v.(SBool)))
	}
	return in.mkBool(acc), true
}
func vrInSet(in *Interp, fr *frame, fn *ssa.Function, a []Value) (Value, bool) {
	b := a[0].(SInt)
	set := a[1].(Str)
	acc := in.tb.Bool(false)
	for i := 0; i < len(set.S); i++ {
		acc = in.tb.Or(acc, in.tb.Eq(in.intTerm(b), in.byteTerm(set, i)))
	}
	return in.mkBool(acc), true
}
func vrIteInt(in *Interp, fr *frame, fn *ssa.Function, a []Value) (Value, bool) {
	c := a[0].(SBool)
	if c.T == nil {
		if c.V {
			return a[1], true
		}
		return a[2], true
	}
	return in.mkIntT(in.tb.Ite(c.T, in.intTerm(a[1].(SInt)), in.intTerm(a[2].(SInt)))), true
}

func utf8DecodeStr(in *Interp, fr *frame, fn *ssa.Function, a []Value) (Value, bool) {
	s := a[0].(Str)
	if len(s.S) == 0 {
		return Tuple{mkInt(32, 0xFFFD), mkInt64(0)}, true
	}
	r, n := in.decodeRuneCached(s, 0)
	return Tuple{r, mkInt64(int64(n))}, true
}
func utf8DecodeBytes(in *Interp, fr *frame, fn *ssa.Function, a []Value) (Value, bool) {
	b := a[0].(Slice)
	if b.L == 0 {
		return Tuple{mkInt(32, 0xFFFD), mkInt64(0)}, true
	}
	r, n := in.decodeRuneCached(in.bytesToStr(b.B[:b.L]), 0)
	return Tuple{r, mkInt64(int64(n))}, true
}
func utf8CountStr(in *Interp, fr *frame, fn *ssa.Function, a []Value) (Value, bool) {
	s := a[0].(Str)
	n := 0
	for i := 0; i < len(s.S); n++ {
		_, w := in.decodeRuneCached(s, i)
		i += w
	}
	return mkInt64(int64(n)), true
}
func utf8ValidStr(in *Interp, fr *frame, fn *ssa.Function, a []Value) (Value, bool) {
	s := a[0].(Str)
	if s.IsConcrete() {
		return nil, false
	}
	for i := 0; i < len(s.S); {
		r, w := in.decodeRuneCached(s, i)
		if w == 1 && r.T == nil && r.V == 0xFFFD {
			return SBool{V: false}, true
		}
		i += w
	}
	return SBool{V: true}, true
}
