package main

// Interpreted goroutines are real goroutines passing a baton: exactly one
// runs at a time and the engine decides which.

import (
	"fmt"
	"sync"
)

type thread struct {
	id      int
	wake    chan struct{}
	done    bool
	blocked func() bool // nil: runnable
	why     string
	fr      *frame
	vc      map[int]int // vector clock (schedule mode)
}

type mutexState struct {
	locked bool
	owner  *thread
	vc     map[int]int
}

type wgState struct {
	n  int64
	vc map[int]int
}

type schedState struct {
	explore  bool // scheduling points are decisions
	monitor  *monitor
	mutexes  map[Ptr]*mutexState
	wgs      map[Ptr]*wgState
	onces    map[Ptr]bool
	wgThreads sync.WaitGroup
	switches int
	preempts   int
	maxPreempt int // -1: unbounded
}

func (in *Interp) newThread() *thread {
	th := &thread{id: len(in.threads), wake: make(chan struct{}, 1), vc: map[int]int{}}
	in.threads = append(in.threads, th)
	return th
}

func (th *thread) schedulable() bool {
	if th.done {
		return false
	}
	return th.blocked == nil || th.blocked()
}

// maxLiveThreads bounds the goroutines alive at once on one path: code that
// keeps spawning while the spawners wait (an endless fan-out) is cut off the
// same way as an endless loop.
const maxLiveThreads = 256

func (in *Interp) spawn(fr *frame, fn Value, args []Value) {
	live := 0
	for _, t := range in.threads {
		if !t.done {
			live++
		}
	}
	if live > maxLiveThreads {
		in.abort("budget", fmt.Sprintf("more than %d goroutines alive at once", maxLiveThreads), fr.site())
	}
	th := in.newThread()
	parent := in.cur
	// happens-before: spawn edge
	for k, v := range parent.vc {
		th.vc[k] = v
	}
	parent.vc[parent.id]++
	th.vc[th.id] = 1
	in.sched.wgThreads.Add(1)
	go func() {
		defer in.sched.wgThreads.Done()
		<-th.wake
		defer func() {
			r := recover()
			if r == nil {
				return
			}
			switch r := r.(type) {
			case abortSignal:
			case *targetPanic:
				if in.outcome == nil {
					in.outcome = &Outcome{Kind: "panic", Msg: r.msg + " [in goroutine]", Site: r.site}
				}
				in.aborting = true
			default:
				if in.outcome == nil {
					in.outcome = &Outcome{Kind: "engine", Msg: fmt.Sprint(r)}
				}
				in.aborting = true
			}
			// hand control back to the main thread, which will unwind
			th.done = true
			if in.cur == th {
				main := in.threads[0]
				in.cur = main
				main.wake <- struct{}{}
			}
		}()
		if in.aborting {
			panic(abortSignal{})
		}
		in.call(nil, fn, args)
		th.done = true
		in.threadExit(th)
	}()
	// no scheduling point here: in a data-race-free program the child's first
	// steps commute with the parent's up to the parent's next synchronisation
	// operation, where a switch is considered
}

// candidates lists the threads other than cur that could run now.
func (in *Interp) candidates() []*thread {
	var out []*thread
	for _, t := range in.threads {
		if t != in.cur && t.schedulable() {
			out = append(out, t)
		}
	}
	return out
}

func (in *Interp) switchTo(next *thread) {
	me := in.cur
	in.cur = next
	in.sched.switches++
	next.wake <- struct{}{}
	<-me.wake
	if in.aborting {
		panic(abortSignal{})
	}
}

func (in *Interp) threadExit(th *thread) {
	c := in.candidates()
	if len(c) == 0 {
		// nobody can run: the main thread is blocked forever
		in.outcome = &Outcome{Kind: "deadlock", Msg: in.describeBlocked()}
		in.aborting = true
		main := in.threads[0]
		in.cur = main
		main.wake <- struct{}{}
		return
	}
	next := c[0]
	// deterministic (lowest id first), see waitUntil
	in.cur = next
	in.sched.switches++
	next.wake <- struct{}{}
}

func (in *Interp) describeBlocked() string {
	s := ""
	for _, t := range in.threads {
		if !t.done && t.blocked != nil {
			s += fmt.Sprintf("[thread %d blocked on %s at %s] ", t.id, t.why, t.fr.site())
		}
	}
	return s
}

// waitUntil blocks the current thread until cond holds.
func (in *Interp) waitUntil(cond func() bool, why string) {
	me := in.cur
	for !cond() {
		me.blocked, me.why = cond, why
		c := in.candidates()
		if len(c) == 0 {
			in.abort("deadlock", in.describeBlocked(), in.where())
		}
		next := c[0]
		// deterministic (lowest id first): the order of segments that are not
		// critical sections does not matter in a data-race-free program, and
		// races are detected by the happens-before monitor in any order
		in.switchTo(next)
		me.blocked = nil
	}
	me.blocked = nil
}

// schedulePoint lets the scheduler preempt the running thread (schedule
// exploration mode only).
func (in *Interp) schedulePoint(why string) {
	c := in.candidates()
	if len(c) == 0 {
		return
	}
	// switching away from a thread that could continue is a preemption;
	// executions with more than the configured number are not explored
	if in.sched.maxPreempt >= 0 && in.sched.preempts >= in.sched.maxPreempt {
		return
	}
	k := in.ex.Choice(len(c) + 1)
	if k == 0 {
		return
	}
	in.sched.preempts++
	in.switchTo(c[k-1])
}

// settle runs every other thread until none can make progress.
func (in *Interp) settle() {
	for {
		c := in.candidates()
		if len(c) == 0 {
			// waiting for everything else to finish orders it before what follows
			for _, t := range in.threads {
				if t != in.cur && t.done {
					vcJoin(in.cur.vc, t.vc)
				}
			}
			return
		}
		next := c[0]
		// deterministic (lowest id first): the order of segments that are not
		// critical sections does not matter in a data-race-free program, and
		// races are detected by the happens-before monitor in any order
		in.switchTo(next)
	}
}

// killThreads releases every parked thread so that it unwinds and exits.
func (in *Interp) killThreads() {
	in.aborting = true
	for _, t := range in.threads[1:] {
		if !t.done {
			select {
			case t.wake <- struct{}{}:
			default:
			}
		}
	}
	in.sched.wgThreads.Wait()
}

func vcJoin(dst, src map[int]int) {
	for k, v := range src {
		if dst[k] < v {
			dst[k] = v
		}
	}
}

func (in *Interp) mutex(p Ptr) *mutexState {
	m := in.sched.mutexes[p]
	if m == nil {
		m = &mutexState{vc: map[int]int{}}
		in.sched.mutexes[p] = m
	}
	return m
}

func (in *Interp) lock(fr *frame, p Ptr) {
	m := in.mutex(p)
	if in.sched.explore {
		in.schedulePoint("lock")
	}
	in.waitUntil(func() bool { return !m.locked }, "Mutex.Lock")
	m.locked = true
	m.owner = in.cur
	vcJoin(in.cur.vc, m.vc)
}

func (in *Interp) unlock(fr *frame, p Ptr) {
	m := in.mutex(p)
	if !m.locked {
		panic(&targetPanic{v: Iface{}, msg: "fatal error: sync: unlock of unlocked mutex", site: fr.servitorSite()})
	}
	m.locked = false
	m.owner = nil
	m.vc = map[int]int{}
	vcJoin(m.vc, in.cur.vc)
	in.cur.vc[in.cur.id]++
	// (a switch right after Unlock is equivalent to one at this thread's next
	// synchronisation operation or exit)
}

func (in *Interp) wg(p Ptr) *wgState {
	w := in.sched.wgs[p]
	if w == nil {
		w = &wgState{vc: map[int]int{}}
		in.sched.wgs[p] = w
	}
	return w
}

// ---- happens-before race monitor

type accessRec struct {
	th    int
	clock int
	site  string
	write bool
}

type monitor struct {
	last  map[Ptr][]accessRec // last write + reads since
	races []string
	watch func(p Ptr) bool
}

func (mo *monitor) access(in *Interp, fr *frame, p Ptr, write bool) {
	if len(in.threads) < 2 {
		return
	}
	th := in.cur
	recs := mo.last[p]
	for _, r := range recs {
		if r.th == th.id {
			continue
		}
		if !(write || r.write) {
			continue
		}
		if th.vc[r.th] < r.clock {
			mo.races = append(mo.races, fmt.Sprintf("race: %s by thread %d at %s vs %s by thread %d at %s",
				rw(write), th.id, fr.site(), rw(r.write), r.th, r.site))
		}
	}
	rec := accessRec{th: th.id, clock: th.vc[th.id], site: fr.site(), write: write}
	if write {
		mo.last[p] = []accessRec{rec}
	} else {
		// keep one read per thread
		kept := recs[:0:0]
		for _, r := range recs {
			if !(r.th == th.id && !r.write) {
				kept = append(kept, r)
			}
		}
		mo.last[p] = append(kept, rec)
	}
}

func rw(w bool) string {
	if w {
		return "write"
	}
	return "read"
}
