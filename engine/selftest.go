package main

// Differential self-test of the regexp port against the real package, on the
// patterns servitor uses and random subjects over a hostile alphabet.

import (
	"fmt"
	"math/rand"
	"os"
	"os/exec"
	"regexp"
	"strings"
	"time"
	"unicode"
)

func servitorPatterns() []string {
	out, err := exec.Command("grep", "-rhoE", "--include=*.go", "--exclude=*_test.go", "MustCompile\\(`[^`]*`\\)", repoDir).Output()
	if err != nil {
		return nil
	}
	seen := map[string]bool{}
	var pats []string
	for _, l := range strings.Split(string(out), "\n") {
		if i := strings.Index(l, "`"); i >= 0 {
			p := l[i+1 : strings.LastIndex(l, "`")]
			if !seen[p] {
				seen[p] = true
				pats = append(pats, p)
			}
		}
	}
	return pats
}

func runSelftest() int {
	pats := servitorPatterns()
	if len(pats) == 0 {
		fmt.Println("selftest: no patterns found")
		return 2
	}
	alphabet := []string{"\x1b", "[", "m", "0", ";", "1", "a", "Z", " ", "\n", "\t", "\r", "é", "世", "/", ":", ".", "=", ">", "#", "*", "`", "%", "-", "+", "\x80", "\xff", "h", "t", "p", "s", "⎯"}
	rng := rand.New(rand.NewSource(1))
	tb := NewTermBank()
	in := &Interp{tb: tb, budget: 1 << 60, ex: &PathCtx{tb: tb, decided: map[*Term]bool{}}}
	in.cur = &thread{}
	cases, bad := 0, 0
	t0 := time.Now()
	for _, p := range pats {
		r, err := compileRe(p)
		if err != nil {
			fmt.Println("selftest: cannot compile", p)
			return 2
		}
		native := regexp.MustCompile(p)
		for k := 0; k < 4000; k++ {
			n := rng.Intn(9)
			var sb strings.Builder
			for i := 0; i < n; i++ {
				sb.WriteString(alphabet[rng.Intn(len(alphabet))])
			}
			subj := sb.String()
			cases++
			// FindAllStringSubmatch
			want := native.FindAllStringSubmatch(subj, -1)
			got := in.portFindAll(nil, r, Str{S: subj}, -1)
			ok := len(want) == len(got)
			for i := 0; ok && i < len(want); i++ {
				ok = len(want[i]) == len(got[i])
				for j := 0; ok && j < len(want[i]); j++ {
					ok = want[i][j] == got[i][j].S
				}
			}
			// FindStringSubmatch
			w1 := native.FindStringSubmatch(subj)
			m := in.reExec(nil, r, Str{S: subj}, 0, r.numCap)
			if (w1 == nil) != (m == nil) {
				ok = false
			} else if m != nil {
				g1 := in.submatchStrings(Str{S: subj}, m)
				for j := range w1 {
					ok = ok && w1[j] == g1[j].S
				}
			}
			// ReplaceAllString with a literal
			w2 := native.ReplaceAllString(subj, "_")
			g2 := in.reReplaceAll(nil, r, Str{S: subj}, func(Str) Str { return Str{S: "_"} })
			ok = ok && w2 == g2.S
			if !ok {
				bad++
				if bad <= 5 {
					fmt.Printf("selftest: MISMATCH pattern %q subject %q\n", p, subj)
				}
			}
		}
	}
	fmt.Printf("selftest: regexp port vs real regexp: %d patterns, %d cases, %d mismatches, %.1fs\n", len(pats), cases, bad, time.Since(t0).Seconds())
	if bad > 0 {
		return 1
	}
	// the unicode predicates as terms vs the real functions, for every code point
	type pred struct {
		name string
		f    func(rune) bool
		tab  *unicode.RangeTable
	}
	ubad := 0
	for _, pr := range []pred{{"IsSpace", unicode.IsSpace, unicode.White_Space}, {"IsControl", unicode.IsControl, unicode.Cc},
		{"IsLetter", unicode.IsLetter, unicode.L}, {"IsDigit", unicode.IsDigit, unicode.Nd}, {"IsUpper", unicode.IsUpper, unicode.Upper}, {"IsLower", unicode.IsLower, unicode.Lower}} {
		v := tb.Var(SoBV32, "r_"+pr.name)
		t := in.rangeTableTerm(v, pr.tab)
		for r := rune(0); r <= 0x10FFFF; r++ {
			// every code point up to U+3100 (all spaces and controls live there), a sample beyond
			if r > 0x3100 {
				r += 996
			}
			if pr.name != "IsSpace" && pr.name != "IsControl" && r > 0x800 {
				r += 40
			}
			if (Model{v.name: uint64(r)}.Eval(t) != 0) != pr.f(r) {
				ubad++
				if ubad <= 5 {
					fmt.Printf("selftest: MISMATCH unicode.%s(%U)\n", pr.name, r)
				}
			}
		}
	}
	fmt.Printf("selftest: unicode predicate terms vs real functions: %d mismatches, %.1fs\n", ubad, time.Since(t0).Seconds())
	if ubad > 0 {
		return 1
	}
	_ = os.Stdout
	return 0
}
