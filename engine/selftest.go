package main

func runSelftest() int { return 0 }
