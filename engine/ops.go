package main

import (
	"fmt"
	"go/constant"
	"go/token"
	"go/types"
	"math"
	"unicode/utf8"

	"golang.org/x/tools/go/ssa"
)

func constantBool(c *ssa.Const) bool     { return constant.BoolVal(c.Value) }
func constantString(c *ssa.Const) string {
	if c.Value.Kind() == constant.String {
		return constant.StringVal(c.Value)
	}
	return string(rune(c.Int64()))
}

// ---- term helpers on values

func (in *Interp) intTerm(x SInt) *Term {
	if x.T != nil {
		return x.T
	}
	return in.tb.Const(bvSort(uint(x.W)), x.V)
}
func (in *Interp) boolTerm(x SBool) *Term {
	if x.T != nil {
		return x.T
	}
	return in.tb.Bool(x.V)
}
func (in *Interp) floatTerm(x SFloat) *Term {
	if x.T != nil {
		return x.T
	}
	return in.tb.FpConst(x.V)
}
func (in *Interp) mkBool(t *Term) SBool {
	if t.op == OpConst {
		return SBool{V: t.c != 0}
	}
	return SBool{T: t}
}
func (in *Interp) mkIntT(t *Term) SInt {
	w := uint8(t.sort.Width())
	if t.op == OpConst {
		return SInt{W: w, V: t.c}
	}
	return SInt{W: w, T: t}
}
func (in *Interp) mkFloatT(t *Term) SFloat {
	if t.op == OpConst {
		return SFloat{V: math.Float64frombits(t.c), W: 64}
	}
	return SFloat{T: t, W: 64}
}
func (in *Interp) byteTerm(s Str, i int) *Term {
	if s.Sym != nil && s.Sym[i] != nil {
		return s.Sym[i]
	}
	return in.tb.Const(SoBV8, uint64(s.S[i]))
}

// truth forces a boolean value to a concrete decision.
func (in *Interp) truth(b SBool) bool {
	if b.T != nil {
		return in.ex.Branch(b.T)
	}
	return b.V
}

// ---- unary

func (in *Interp) unop(fr *frame, instr *ssa.UnOp, x Value) Value {
	switch instr.Op {
	case token.MUL: // load
		p := x.(Ptr)
		if p == nil {
			in.throw(fr, "invalid memory address or nil pointer dereference")
		}
		in.onRead(fr, p)
		return copyVal(*p)
	case token.NOT:
		b := x.(SBool)
		if b.T != nil {
			return in.mkBool(in.tb.Not(b.T))
		}
		return SBool{V: !b.V}
	case token.SUB:
		switch x := x.(type) {
		case SInt:
			if x.T != nil {
				return in.mkIntT(in.tb.BvNeg(x.T))
			}
			return mkInt(uint(x.W), -x.V)
		case SFloat:
			if x.T != nil {
				return in.mkFloatT(in.tb.FpUn(OpFpNeg, x.T))
			}
			return SFloat{V: -x.V, W: x.W}
		}
	case token.XOR:
		xi := x.(SInt)
		if xi.T != nil {
			return in.mkIntT(in.tb.BvNot(xi.T))
		}
		return mkInt(uint(xi.W), ^xi.V)
	case token.ARROW:
		in.unsupported("channel receive")
	}
	panic(fmt.Sprintf("unop %v on %T", instr.Op, x))
}

// ---- binary

func (in *Interp) binop(fr *frame, op token.Token, t types.Type, x, y Value) Value {
	switch op {
	case token.EQL:
		return in.equals(fr, t, x, y)
	case token.NEQ:
		e := in.equals(fr, t, x, y)
		if e.T != nil {
			return in.mkBool(in.tb.Not(e.T))
		}
		return SBool{V: !e.V}
	}
	switch x := x.(type) {
	case SInt:
		return in.intBinop(fr, op, t, x, y.(SInt))
	case SFloat:
		return in.floatBinop(fr, op, x, y.(SFloat))
	case Str:
		ys := y.(Str)
		switch op {
		case token.ADD:
			return concatStr(x, ys)
		case token.LSS, token.LEQ, token.GTR, token.GEQ:
			return in.strCompare(fr, op, x, ys)
		}
	case SBool:
		yb := y.(SBool)
		switch op {
		case token.LAND, token.AND:
			return in.mkBool(in.tb.And(in.boolTerm(x), in.boolTerm(yb)))
		case token.LOR, token.OR:
			return in.mkBool(in.tb.Or(in.boolTerm(x), in.boolTerm(yb)))
		}
	}
	panic(fmt.Sprintf("binop %v on %T, %T", op, x, y))
}

func (in *Interp) intBinop(fr *frame, op token.Token, t types.Type, x, y SInt) Value {
	w, signed, ok := intWidth(t)
	if !ok {
		panic(fmt.Sprintf("intBinop on type %v", t))
	}
	if uint(x.W) != w {
		panic(fmt.Sprintf("intBinop: width %d for type %v", x.W, t))
	}
	isShift := op == token.SHL || op == token.SHR
	if x.T == nil && y.T == nil {
		// concrete
		if isShift {
			return in.concShift(fr, op, w, signed, x, y)
		}
		xv, yv := x.V, y.V
		var r uint64
		switch op {
		case token.ADD:
			r = xv + yv
		case token.SUB:
			r = xv - yv
		case token.MUL:
			r = xv * yv
		case token.QUO, token.REM:
			if yv == 0 {
				in.throw(fr, "integer divide by zero")
			}
			o := OpBvUDiv
			switch {
			case op == token.QUO && signed:
				o = OpBvSDiv
			case op == token.REM && signed:
				o = OpBvSRem
			case op == token.REM:
				o = OpBvURem
			}
			r, _ = evalBin(o, xv, yv, w)
		case token.AND:
			r = xv & yv
		case token.OR:
			r = xv | yv
		case token.XOR:
			r = xv ^ yv
		case token.AND_NOT:
			r = xv &^ yv
		case token.LSS, token.LEQ, token.GTR, token.GEQ:
			var b bool
			if signed {
				sx, sy := sext(xv, w), sext(yv, w)
				switch op {
				case token.LSS:
					b = sx < sy
				case token.LEQ:
					b = sx <= sy
				case token.GTR:
					b = sx > sy
				case token.GEQ:
					b = sx >= sy
				}
			} else {
				switch op {
				case token.LSS:
					b = xv < yv
				case token.LEQ:
					b = xv <= yv
				case token.GTR:
					b = xv > yv
				case token.GEQ:
					b = xv >= yv
				}
			}
			return SBool{V: b}
		default:
			panic(fmt.Sprintf("intBinop op %v", op))
		}
		return mkInt(w, r)
	}
	// symbolic
	tb := in.tb
	if isShift {
		return in.symShift(fr, op, w, signed, x, y)
	}
	xt, yt := in.intTerm(x), in.intTerm(y)
	switch op {
	case token.ADD:
		return in.mkIntT(tb.Bin(OpBvAdd, xt, yt))
	case token.SUB:
		return in.mkIntT(tb.Bin(OpBvSub, xt, yt))
	case token.MUL:
		return in.mkIntT(tb.Bin(OpBvMul, xt, yt))
	case token.QUO, token.REM:
		if y.T != nil {
			if in.ex.Branch(tb.Eq(yt, tb.Const(yt.sort, 0))) {
				in.throw(fr, "integer divide by zero")
			}
		} else if y.V == 0 {
			in.throw(fr, "integer divide by zero")
		}
		o := OpBvUDiv
		switch {
		case op == token.QUO && signed:
			o = OpBvSDiv
		case op == token.REM && signed:
			o = OpBvSRem
		case op == token.REM:
			o = OpBvURem
		}
		return in.mkIntT(tb.Bin(o, xt, yt))
	case token.AND:
		return in.mkIntT(tb.Bin(OpBvAnd, xt, yt))
	case token.OR:
		return in.mkIntT(tb.Bin(OpBvOr, xt, yt))
	case token.XOR:
		return in.mkIntT(tb.Bin(OpBvXor, xt, yt))
	case token.AND_NOT:
		return in.mkIntT(tb.Bin(OpBvAnd, xt, tb.BvNot(yt)))
	case token.LSS, token.LEQ, token.GTR, token.GEQ:
		lt, le := OpBvUlt, OpBvUle
		if signed {
			lt, le = OpBvSlt, OpBvSle
		}
		switch op {
		case token.LSS:
			return in.mkBool(tb.Bin(lt, xt, yt))
		case token.LEQ:
			return in.mkBool(tb.Bin(le, xt, yt))
		case token.GTR:
			return in.mkBool(tb.Bin(lt, yt, xt))
		default:
			return in.mkBool(tb.Bin(le, yt, xt))
		}
	}
	panic(fmt.Sprintf("intBinop op %v", op))
}

func (in *Interp) concShift(fr *frame, op token.Token, w uint, signed bool, x, y SInt) Value {
	// y's signedness is not visible here; a negative signed count would have
	// its top bit set, which we treat (like Go for huge counts) as overshift,
	// except that Go panics for negative signed counts. ssa inserts no check,
	// so mirror interp: counts are taken as unsigned.
	n := y.V
	if op == token.SHL {
		if n >= uint64(w) {
			return mkInt(w, 0)
		}
		return mkInt(w, x.V<<n)
	}
	if signed {
		sx := sext(x.V, w)
		if n >= uint64(w) {
			n = uint64(w) - 1
		}
		return mkInt(w, uint64(sx>>n))
	}
	if n >= uint64(w) {
		return mkInt(w, 0)
	}
	return mkInt(w, x.V>>n)
}

func (in *Interp) symShift(fr *frame, op token.Token, w uint, signed bool, x, y SInt) Value {
	tb := in.tb
	xt := in.intTerm(x)
	yt := tb.Resize(in.intTerm(y), 64, false)
	// SMT shifts by >= width already give 0 / sign fill, matching Go, once
	// the count is compared at 64 bits.
	over := tb.Bin(OpBvUle, tb.Const(SoBV64, uint64(w)), yt)
	yn := tb.Resize(yt, w, false)
	var sh, ov *Term
	switch {
	case op == token.SHL:
		sh, ov = tb.Bin(OpBvShl, xt, yn), tb.Const(xt.sort, 0)
	case signed:
		sh = tb.Bin(OpBvAshr, xt, yn)
		ov = tb.Bin(OpBvAshr, xt, tb.Const(xt.sort, uint64(w-1)))
	default:
		sh, ov = tb.Bin(OpBvLshr, xt, yn), tb.Const(xt.sort, 0)
	}
	return in.mkIntT(tb.Ite(over, ov, sh))
}

func (in *Interp) floatBinop(fr *frame, op token.Token, x, y SFloat) Value {
	if x.T == nil && y.T == nil {
		switch op {
		case token.ADD:
			return SFloat{V: x.V + y.V, W: x.W}
		case token.SUB:
			return SFloat{V: x.V - y.V, W: x.W}
		case token.MUL:
			return SFloat{V: x.V * y.V, W: x.W}
		case token.QUO:
			return SFloat{V: x.V / y.V, W: x.W}
		case token.LSS:
			return SBool{V: x.V < y.V}
		case token.LEQ:
			return SBool{V: x.V <= y.V}
		case token.GTR:
			return SBool{V: x.V > y.V}
		case token.GEQ:
			return SBool{V: x.V >= y.V}
		}
	}
	tb := in.tb
	xt, yt := in.floatTerm(x), in.floatTerm(y)
	switch op {
	case token.ADD:
		return in.mkFloatT(tb.FpArith(OpFpAdd, xt, yt))
	case token.SUB:
		return in.mkFloatT(tb.FpArith(OpFpSub, xt, yt))
	case token.MUL:
		return in.mkFloatT(tb.FpArith(OpFpMul, xt, yt))
	case token.QUO:
		return in.mkFloatT(tb.FpArith(OpFpDiv, xt, yt))
	case token.LSS:
		return in.mkBool(tb.FpCmp(OpFpLt, xt, yt))
	case token.LEQ:
		return in.mkBool(tb.FpCmp(OpFpLe, xt, yt))
	case token.GTR:
		return in.mkBool(tb.FpCmp(OpFpLt, yt, xt))
	case token.GEQ:
		return in.mkBool(tb.FpCmp(OpFpLe, yt, xt))
	}
	panic(fmt.Sprintf("floatBinop %v", op))
}

// strEqTerm is the (possibly symbolic) equality of two strings.
func (in *Interp) strEqTerm(x, y Str) *Term {
	tb := in.tb
	if len(x.S) != len(y.S) {
		return tb.Bool(false)
	}
	if x.Sym == nil && y.Sym == nil {
		return tb.Bool(x.S == y.S)
	}
	acc := tb.Bool(true)
	for i := 0; i < len(x.S); i++ {
		xs := x.Sym != nil && x.Sym[i] != nil
		ys := y.Sym != nil && y.Sym[i] != nil
		if !xs && !ys {
			if x.S[i] != y.S[i] {
				return tb.Bool(false)
			}
			continue
		}
		acc = tb.And(acc, tb.Eq(in.byteTerm(x, i), in.byteTerm(y, i)))
		if acc.op == OpConst && acc.c == 0 {
			return acc
		}
	}
	return acc
}

func (in *Interp) strCompare(fr *frame, op token.Token, x, y Str) Value {
	if x.Sym == nil && y.Sym == nil {
		switch op {
		case token.LSS:
			return SBool{V: x.S < y.S}
		case token.LEQ:
			return SBool{V: x.S <= y.S}
		case token.GTR:
			return SBool{V: x.S > y.S}
		default:
			return SBool{V: x.S >= y.S}
		}
	}
	// lexicographic less-than as a term, built from the end
	tb := in.tb
	n := len(x.S)
	if len(y.S) < n {
		n = len(y.S)
	}
	// lt(x,y): first differing byte has x<y, or common prefix equal and len(x)<len(y)
	var lt *Term = tb.Bool(len(x.S) < len(y.S))
	var eq *Term = tb.Bool(len(x.S) == len(y.S))
	for i := n - 1; i >= 0; i-- {
		bx, by := in.byteTerm(x, i), in.byteTerm(y, i)
		less := tb.Bin(OpBvUlt, bx, by)
		same := tb.Eq(bx, by)
		lt = tb.Or(less, tb.And(same, lt))
		eq = tb.And(same, eq)
	}
	switch op {
	case token.LSS:
		return in.mkBool(lt)
	case token.LEQ:
		return in.mkBool(tb.Or(lt, eq))
	case token.GTR:
		return in.mkBool(tb.Not(tb.Or(lt, eq)))
	default:
		return in.mkBool(tb.Not(lt))
	}
}

// equals implements == for values of static type t.
func (in *Interp) equals(fr *frame, t types.Type, x, y Value) SBool {
	tb := in.tb
	switch x := x.(type) {
	case SInt:
		yi := y.(SInt)
		if x.T == nil && yi.T == nil {
			return SBool{V: x.V == yi.V}
		}
		return in.mkBool(tb.Eq(in.intTerm(x), in.intTerm(yi)))
	case SBool:
		yb := y.(SBool)
		if x.T == nil && yb.T == nil {
			return SBool{V: x.V == yb.V}
		}
		return in.mkBool(tb.Eq(in.boolTerm(x), in.boolTerm(yb)))
	case SFloat:
		yf := y.(SFloat)
		if x.T == nil && yf.T == nil {
			return SBool{V: x.V == yf.V}
		}
		return in.mkBool(tb.FpCmp(OpFpEq, in.floatTerm(x), in.floatTerm(yf)))
	case Str:
		return in.mkBool(in.strEqTerm(x, y.(Str)))
	case Ptr:
		yp, _ := y.(Ptr)
		return SBool{V: x == yp}
	case Native:
		yn, ok := y.(Native)
		return SBool{V: ok && x.X == yn.X}
	case UnsafePtr:
		yu := y.(UnsafePtr)
		return SBool{V: x.P == yu.P && x.Str == yu.Str}
	case *Map:
		ym, _ := y.(*Map)
		return SBool{V: x == ym}
	case Slice:
		ys := y.(Slice)
		// only comparison with nil is legal
		if ys.B == nil {
			return SBool{V: x.B == nil}
		}
		return SBool{V: ys.B != nil && x.B == nil && false}
	case *ssa.Function:
		switch yf := y.(type) {
		case *ssa.Function:
			return SBool{V: x == yf}
		case *Closure:
			return SBool{V: false}
		}
	case *Closure:
		switch yf := y.(type) {
		case *ssa.Function:
			return SBool{V: yf == nil && x == nil}
		case *Closure:
			return SBool{V: x == yf}
		}
	case *ssa.Builtin:
		return SBool{V: x == y}
	case Iface:
		xi := in.resolveIface(fr, x)
		yi := in.resolveIface(fr, y)
		if xi.T == nil || yi.T == nil {
			return SBool{V: xi.T == nil && yi.T == nil}
		}
		if !types.Identical(xi.T, yi.T) {
			return SBool{V: false}
		}
		if !types.Comparable(xi.T) {
			in.throw(fr, "comparing uncomparable type "+xi.T.String())
		}
		return in.equals(fr, xi.T, xi.V, yi.V)
	case Struct:
		ys := y.(Struct)
		st := t.Underlying().(*types.Struct)
		acc := tb.Bool(true)
		for i := range x {
			if st.Field(i).Name() == "_" {
				continue
			}
			e := in.equals(fr, st.Field(i).Type(), x[i], ys[i])
			acc = tb.And(acc, in.boolTerm(e))
		}
		return in.mkBool(acc)
	case Array:
		ya := y.(Array)
		et := t.Underlying().(*types.Array).Elem()
		acc := tb.Bool(true)
		for i := range x {
			e := in.equals(fr, et, x[i], ya[i])
			acc = tb.And(acc, in.boolTerm(e))
		}
		return in.mkBool(acc)
	case nil:
		return SBool{V: y == nil}
	}
	panic(fmt.Sprintf("equals: %T vs %T at type %v", x, y, t))
}

// ---- conversions

func (in *Interp) conv(fr *frame, tdst, tsrc types.Type, x Value) Value {
	ud, us := tdst.Underlying(), tsrc.Underlying()
	switch ud := ud.(type) {
	case *types.Pointer:
		// *T <-> unsafe.Pointer
		switch x := x.(type) {
		case UnsafePtr:
			return x.P
		case Ptr:
			return x
		}
	case *types.Slice:
		// string -> []byte / []rune
		s, ok := x.(Str)
		if !ok {
			return x
		}
		eb := ud.Elem().Underlying().(*types.Basic)
		if eb.Kind() == types.Uint8 {
			b := make([]Value, len(s.S))
			for i := range b {
				b[i] = strByte(s, i)
			}
			return Slice{B: b, L: len(b)}
		}
		if eb.Kind() == types.Int32 {
			var out []Value
			for i := 0; i < len(s.S); {
				r, n := in.decodeRune(s, i)
				out = append(out, r)
				i += n
			}
			if out == nil {
				out = []Value{}
			}
			return Slice{B: out, L: len(out)}
		}
	case *types.Basic:
		if ud.Kind() == types.UnsafePointer {
			switch x := x.(type) {
			case Ptr:
				return UnsafePtr{P: x}
			case UnsafePtr:
				return x
			case SInt:
				return UnsafePtr{}
			}
		}
		if ud.Info()&types.IsString != 0 {
			switch x := x.(type) {
			case Str:
				return x
			case SInt: // rune -> string
				return in.runeToStr(x, tsrc)
			case Slice:
				es := us.(*types.Slice).Elem().Underlying().(*types.Basic)
				if es.Kind() == types.Uint8 {
					return in.bytesToStr(x.B[:x.L])
				}
				// []rune
				out := Str{}
				for i := 0; i < x.L; i++ {
					out = concatStr(out, in.runeToStr(x.B[i].(SInt), types.Typ[types.Int32]))
				}
				return out
			}
		}
		if w, dsigned, ok := intWidth(ud); ok {
			switch x := x.(type) {
			case SInt:
				_, ssigned, _ := intWidth(us)
				if x.T != nil {
					return in.mkIntT(in.tb.Resize(x.T, w, ssigned))
				}
				if ssigned {
					return mkInt(w, uint64(sext(x.V, uint(x.W))))
				}
				return mkInt(w, x.V)
			case SFloat:
				if x.T != nil {
					if w != 64 {
						in.unsupported("symbolic float to narrow int")
					}
					if dsigned {
						return in.mkIntT(in.tb.FpUn(OpFpToSBV, x.T))
					}
					return in.mkIntT(in.tb.FpUn(OpFpToUBV, x.T))
				}
				return mkInt(w, floatToBits(x.V, w, dsigned))
			case UnsafePtr:
				return mkInt(w, 0)
			}
		}
		if ud.Info()&types.IsFloat != 0 {
			fw := uint8(64)
			if ud.Kind() == types.Float32 {
				fw = 32
			}
			switch x := x.(type) {
			case SFloat:
				if fw == 32 && x.T == nil {
					return SFloat{V: float64(float32(x.V)), W: 32}
				}
				x.W = fw
				return x
			case SInt:
				_, ssigned, _ := intWidth(us)
				if x.T != nil {
					t64 := in.tb.Resize(x.T, 64, ssigned)
					if ssigned {
						return in.mkFloatT(in.tb.FpUn(OpFpFromSBV, t64))
					}
					return in.mkFloatT(in.tb.FpUn(OpFpFromUBV, t64))
				}
				var f float64
				if ssigned {
					f = float64(sext(x.V, uint(x.W)))
				} else {
					f = float64(x.V)
				}
				if fw == 32 {
					f = float64(float32(f))
				}
				return SFloat{V: f, W: fw}
			}
		}
		if ud.Info()&types.IsBoolean != 0 {
			return x
		}
	}
	panic(fmt.Sprintf("conv %v <- %v (%T)", tdst, tsrc, x))
}

// floatToBits performs Go's (amd64) float->integer conversion natively.
func floatToBits(f float64, w uint, signed bool) uint64 {
	switch {
	case signed && w == 64:
		return uint64(int64(f))
	case signed && w == 32:
		return uint64(int32(f))
	case signed && w == 16:
		return uint64(int16(f))
	case signed && w == 8:
		return uint64(int8(f))
	case w == 64:
		return uint64(f)
	case w == 32:
		return uint64(uint32(f))
	case w == 16:
		return uint64(uint16(f))
	default:
		return uint64(uint8(f))
	}
}

func (in *Interp) bytesToStr(b []Value) Str {
	buf := make([]byte, len(b))
	var sym []*Term
	for i, v := range b {
		x := v.(SInt)
		if x.T != nil {
			if sym == nil {
				sym = make([]*Term, len(b))
			}
			sym[i] = x.T
		} else {
			buf[i] = byte(x.V)
		}
	}
	return Str{S: string(buf), Sym: sym}
}

func strToValues(s Str) []Value {
	b := make([]Value, len(s.S))
	for i := range b {
		b[i] = strByte(s, i)
	}
	return b
}

// runeToStr encodes a rune (possibly symbolic) as UTF-8, forking on the
// encoded length.
func (in *Interp) runeToStr(x SInt, tsrc types.Type) Str {
	if x.T == nil {
		var r rune
		_, signed, _ := intWidth(tsrc)
		if signed {
			v := sext(x.V, uint(x.W))
			if v < 0 || v > utf8.MaxRune {
				r = utf8.RuneError
			} else {
				r = rune(v)
			}
		} else if x.V > utf8.MaxRune {
			r = utf8.RuneError
		} else {
			r = rune(x.V)
		}
		return Str{S: string(r)}
	}
	tb := in.tb
	t := tb.Resize(x.T, 32, false)
	c := func(v uint64) *Term { return tb.Const(SoBV32, v) }
	b8 := func(t *Term) *Term { return tb.Resize(t, 8, false) }
	shr := func(t *Term, n uint64) *Term { return tb.Bin(OpBvLshr, t, c(n)) }
	and := func(t *Term, m uint64) *Term { return tb.Bin(OpBvAnd, t, c(m)) }
	or8 := func(t *Term, m uint64) *Term { return tb.Bin(OpBvOr, b8(t), tb.Const(SoBV8, m)) }
	mk := func(ts ...*Term) Str {
		return Str{S: string(make([]byte, len(ts))), Sym: ts}
	}
	if in.ex.Branch(tb.Bin(OpBvUlt, t, c(0x80))) {
		return mk(b8(t))
	}
	if in.ex.Branch(tb.Bin(OpBvUlt, t, c(0x800))) {
		return mk(or8(shr(t, 6), 0xC0), or8(and(t, 0x3F), 0x80))
	}
	bad := tb.Or(tb.Bin(OpBvUlt, c(0x10FFFF), t),
		tb.And(tb.Bin(OpBvUle, c(0xD800), t), tb.Bin(OpBvUle, t, c(0xDFFF))))
	if in.ex.Branch(bad) {
		return Str{S: string(utf8.RuneError)}
	}
	if in.ex.Branch(tb.Bin(OpBvUlt, t, c(0x10000))) {
		return mk(or8(shr(t, 12), 0xE0), or8(and(shr(t, 6), 0x3F), 0x80), or8(and(t, 0x3F), 0x80))
	}
	return mk(or8(shr(t, 18), 0xF0), or8(and(shr(t, 12), 0x3F), 0x80), or8(and(shr(t, 6), 0x3F), 0x80), or8(and(t, 0x3F), 0x80))
}

// decodeRune decodes the rune at s[i:], forking on the UTF-8 class when the
// bytes are symbolic. Mirrors utf8.DecodeRuneInString.
func (in *Interp) decodeRune(s Str, i int) (SInt, int) {
	n := len(s.S) - i
	symbolic := false
	if s.Sym != nil {
		for k := i; k < len(s.S) && k < i+4; k++ {
			if s.Sym[k] != nil {
				symbolic = true
				break
			}
		}
	}
	if !symbolic {
		r, sz := utf8.DecodeRuneInString(s.S[i:])
		return mkInt(32, uint64(uint32(r))), sz
	}
	tb := in.tb
	c8 := func(v uint64) *Term { return tb.Const(SoBV8, v) }
	inr := func(t *Term, lo, hi uint64) *Term {
		return tb.And(tb.Bin(OpBvUle, c8(lo), t), tb.Bin(OpBvUle, t, c8(hi)))
	}
	z := func(t *Term, m uint64, sh uint64) *Term {
		return tb.Bin(OpBvShl, tb.Resize(tb.Bin(OpBvAnd, t, c8(m)), 32, false), tb.Const(SoBV32, sh))
	}
	or := func(a, b *Term) *Term { return tb.Bin(OpBvOr, a, b) }
	invalid := func() (SInt, int) { return mkInt(32, uint64(utf8.RuneError)), 1 }
	b0 := in.byteTerm(s, i)
	if in.ex.Branch(tb.Bin(OpBvUlt, b0, c8(0x80))) {
		return in.mkIntT(tb.Resize(b0, 32, false)), 1
	}
	if in.ex.Branch(inr(b0, 0xC2, 0xDF)) {
		if n < 2 {
			return invalid()
		}
		b1 := in.byteTerm(s, i+1)
		if !in.ex.Branch(inr(b1, 0x80, 0xBF)) {
			return invalid()
		}
		return in.mkIntT(or(z(b0, 0x1F, 6), z(b1, 0x3F, 0))), 2
	}
	if in.ex.Branch(inr(b0, 0xE0, 0xEF)) {
		if n < 3 {
			return invalid()
		}
		b1, b2 := in.byteTerm(s, i+1), in.byteTerm(s, i+2)
		lo := tb.Ite(tb.Eq(b0, c8(0xE0)), c8(0xA0), c8(0x80))
		hi := tb.Ite(tb.Eq(b0, c8(0xED)), c8(0x9F), c8(0xBF))
		ok := tb.And(tb.And(tb.Bin(OpBvUle, lo, b1), tb.Bin(OpBvUle, b1, hi)), inr(b2, 0x80, 0xBF))
		if !in.ex.Branch(ok) {
			return invalid()
		}
		return in.mkIntT(or(or(z(b0, 0x0F, 12), z(b1, 0x3F, 6)), z(b2, 0x3F, 0))), 3
	}
	if in.ex.Branch(inr(b0, 0xF0, 0xF4)) {
		if n < 4 {
			return invalid()
		}
		b1, b2, b3 := in.byteTerm(s, i+1), in.byteTerm(s, i+2), in.byteTerm(s, i+3)
		lo := tb.Ite(tb.Eq(b0, c8(0xF0)), c8(0x90), c8(0x80))
		hi := tb.Ite(tb.Eq(b0, c8(0xF4)), c8(0x8F), c8(0xBF))
		ok := tb.And(tb.And(tb.And(tb.Bin(OpBvUle, lo, b1), tb.Bin(OpBvUle, b1, hi)), inr(b2, 0x80, 0xBF)), inr(b3, 0x80, 0xBF))
		if !in.ex.Branch(ok) {
			return invalid()
		}
		return in.mkIntT(or(or(or(z(b0, 0x07, 18), z(b1, 0x3F, 12)), z(b2, 0x3F, 6)), z(b3, 0x3F, 0))), 4
	}
	return invalid()
}

// ---- slicing

func (in *Interp) slice(fr *frame, instr *ssa.Slice, x, lo, hi, max Value) Value {
	var ln, cp int
	switch x := x.(type) {
	case Str:
		ln, cp = len(x.S), len(x.S)
	case Slice:
		ln, cp = x.L, len(x.B)
	case Ptr:
		if x == nil {
			in.throw(fr, "invalid memory address or nil pointer dereference")
		}
		a := (*x).(Array)
		ln, cp = len(a), len(a)
	}
	l, h, m := 0, ln, cp
	get := func(v Value, what string) int {
		k := in.concInt(fr, v, what)
		if k < 0 || k > int64(cp) {
			in.throw(fr, fmt.Sprintf("slice bounds out of range [%s %d] with capacity %d", what, k, cp))
		}
		return int(k)
	}
	if lo != nil {
		l = get(lo, "low")
	}
	if hi != nil {
		h = get(hi, "high")
	}
	if max != nil {
		m = get(max, "max")
	}
	if _, isStr := x.(Str); isStr && h > ln {
		in.throw(fr, fmt.Sprintf("slice bounds out of range [:%d] with length %d", h, ln))
	}
	if l > h || h > m {
		in.throw(fr, fmt.Sprintf("slice bounds out of range [%d:%d:%d]", l, h, m))
	}
	switch x := x.(type) {
	case Str:
		return x.sliceStr(l, h)
	case Slice:
		if x.B == nil {
			return Slice{}
		}
		return Slice{B: x.B[l:m:m], L: h - l}
	case Ptr:
		a := (*x).(Array)
		return Slice{B: []Value(a)[l:m:m], L: h - l}
	}
	panic("slice")
}

// ---- maps

func (in *Interp) mapFind(fr *frame, m *Map, key Value) *mapEntry {
	if m == nil {
		return nil
	}
	if k, ok := concreteKey(key); ok {
		if e, ok := m.idx[k]; ok && !e.deleted {
			return e
		}
		// symbolic keys present in the map?
		for _, e := range m.order {
			if e.deleted {
				continue
			}
			if _, conc := concreteKey(e.k); !conc {
				if in.truth(in.equals(fr, m.kt, e.k, key)) {
					return e
				}
			}
		}
		return nil
	}
	for _, e := range m.order {
		if e.deleted {
			continue
		}
		if in.truth(in.equals(fr, m.kt, e.k, key)) {
			return e
		}
	}
	return nil
}

func (in *Interp) mapStore(fr *frame, m *Map, key, val Value) {
	if fr != nil {
		in.onWrite(fr, &m.raceCell)
	}
	if e := in.mapFind(fr, m, key); e != nil {
		e.v = val
		return
	}
	e := &mapEntry{k: key, v: val}
	if k, ok := concreteKey(key); ok {
		m.idx[k] = e
	}
	m.order = append(m.order, e)
	m.n++
}

func (in *Interp) mapDelete(fr *frame, m *Map, key Value) {
	if fr != nil && m != nil {
		in.onWrite(fr, &m.raceCell)
	}
	if e := in.mapFind(fr, m, key); e != nil {
		e.deleted = true
		m.n--
		if k, ok := concreteKey(e.k); ok {
			delete(m.idx, k)
		}
	}
}

func (in *Interp) lookup(fr *frame, instr *ssa.Lookup, x, idx Value) Value {
	m := x.(*Map)
	vt := instr.X.Type().Underlying().(*types.Map).Elem()
	var v Value
	ok := false
	if m != nil {
		in.onRead(fr, &m.raceCell)
	}
	if m != nil && m.traced {
		if k, isStr := idx.(Str); isStr && k.IsConcrete() {
			if in.touched == nil {
				in.touched = map[string]bool{}
			}
			in.touched[k.S] = true
		}
	}
	if e := in.mapFind(fr, m, idx); e != nil {
		v, ok = copyVal(e.v), true
	} else {
		v = zero(vt)
	}
	if instr.CommaOk {
		return Tuple{v, SBool{V: ok}}
	}
	return v
}

// ---- interfaces

// resolveIface forces a lazily-typed interface value (verifrt.JSON) to pick
// its dynamic type.
func (in *Interp) resolveIface(fr *frame, v Value) Iface {
	switch v := v.(type) {
	case Iface:
		if lz, ok := v.V.(*LazyJSON); ok && v.T == lazyType {
			return in.resolveLazy(fr, lz)
		}
		return v
	case nil:
		return Iface{}
	}
	panic(fmt.Sprintf("resolveIface: %T", v))
}

func (in *Interp) typeAssert(fr *frame, instr *ssa.TypeAssert, x Value) Value {
	itf := in.resolveIface(fr, x)
	var ok bool
	var v Value
	if ai, isI := instr.AssertedType.Underlying().(*types.Interface); isI {
		if itf.T != nil {
			ok = in.implements(itf.T, ai)
		}
		if ok {
			v = itf
		}
	} else {
		ok = itf.T != nil && types.Identical(itf.T, instr.AssertedType)
		if ok {
			v = copyVal(itf.V)
		}
	}
	if instr.CommaOk {
		if !ok {
			v = zero(instr.AssertedType)
		}
		return Tuple{v, SBool{V: ok}}
	}
	if !ok {
		what := "nil"
		if itf.T != nil {
			what = itf.T.String()
		}
		in.throw(fr, fmt.Sprintf("interface conversion: interface is %s, not %s", what, instr.AssertedType))
	}
	return v
}

func (in *Interp) implements(t types.Type, iface *types.Interface) bool {
	m, _ := types.MissingMethod(t, iface, true)
	return m == nil
}

// ---- range iteration

type iter interface {
	next(in *Interp, fr *frame) Value
}

type strIter struct {
	s Str
	i int
}

func (it *strIter) next(in *Interp, fr *frame) Value {
	if it.i >= len(it.s.S) {
		return Tuple{SBool{V: false}, mkInt64(0), mkInt(32, 0)}
	}
	r, n := in.decodeRune(it.s, it.i)
	k := it.i
	it.i += n
	return Tuple{SBool{V: true}, mkInt64(int64(k)), r}
}

type mapIter struct {
	es []*mapEntry
	i  int
	kt, vt types.Type
}

func (it *mapIter) next(in *Interp, fr *frame) Value {
	for it.i < len(it.es) && it.es[it.i].deleted {
		it.i++
	}
	if it.i >= len(it.es) {
		return Tuple{SBool{V: false}, zero(it.kt), zero(it.vt)}
	}
	e := it.es[it.i]
	it.i++
	return Tuple{SBool{V: true}, e.k, copyVal(e.v)}
}

func (in *Interp) rangeIter(fr *frame, x Value, t types.Type) Value {
	switch x := x.(type) {
	case Str:
		return &strIter{s: x}
	case *Map:
		mt := t.Underlying().(*types.Map)
		if x == nil {
			return &mapIter{kt: mt.Key(), vt: mt.Elem()}
		}
		in.onRead(fr, &x.raceCell)
		return &mapIter{es: x.sortedEntries(), kt: mt.Key(), vt: mt.Elem()}
	}
	panic(fmt.Sprintf("range over %T", x))
}
