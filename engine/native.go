package main

// Marshalling between interpreter values and native Go values, used for the
// "native when concrete" fast path of environment (stdlib / dependency) code.

import (
	"fmt"
	"go/types"
	"reflect"
	"unsafe"
)

type marshalCtx struct {
	in   *Interp
	memo map[unsafe.Pointer]Ptr
}

var emptyIface = types.NewInterfaceType(nil, nil).Complete()

// typeOfReflect maps a native dynamic type to the go/types type of the
// loaded program.
func (P *Program) typeOfReflect(rt reflect.Type) types.Type {
	if rt.Name() != "" && rt.PkgPath() != "" {
		pkg := P.prog.ImportedPackage(rt.PkgPath())
		if pkg == nil {
			return nil
		}
		obj := pkg.Pkg.Scope().Lookup(rt.Name())
		if obj == nil {
			return nil
		}
		return obj.Type()
	}
	switch rt.Kind() {
	case reflect.Bool:
		return types.Typ[types.Bool]
	case reflect.Int:
		return types.Typ[types.Int]
	case reflect.Int8:
		return types.Typ[types.Int8]
	case reflect.Int16:
		return types.Typ[types.Int16]
	case reflect.Int32:
		return types.Typ[types.Int32]
	case reflect.Int64:
		return types.Typ[types.Int64]
	case reflect.Uint:
		return types.Typ[types.Uint]
	case reflect.Uint8:
		return types.Typ[types.Uint8]
	case reflect.Uint16:
		return types.Typ[types.Uint16]
	case reflect.Uint32:
		return types.Typ[types.Uint32]
	case reflect.Uint64:
		return types.Typ[types.Uint64]
	case reflect.Uintptr:
		return types.Typ[types.Uintptr]
	case reflect.Float64:
		return types.Typ[types.Float64]
	case reflect.Float32:
		return types.Typ[types.Float32]
	case reflect.String:
		return types.Typ[types.String]
	case reflect.Ptr:
		e := P.typeOfReflect(rt.Elem())
		if e == nil {
			return nil
		}
		return types.NewPointer(e)
	case reflect.Slice:
		e := P.typeOfReflect(rt.Elem())
		if e == nil {
			return nil
		}
		return types.NewSlice(e)
	case reflect.Map:
		k, e := P.typeOfReflect(rt.Key()), P.typeOfReflect(rt.Elem())
		if k == nil || e == nil {
			return nil
		}
		return types.NewMap(k, e)
	case reflect.Interface:
		if rt.NumMethod() == 0 {
			return emptyIface
		}
	}
	return nil
}

var opaquePtrTypes = map[string]bool{
	"*time.Location": true,
	"*regexp.Regexp": true,
}

func (mc *marshalCtx) fromNative(rv reflect.Value, t types.Type) Value {
	in := mc.in
	switch u := t.Underlying().(type) {
	case *types.Basic:
		if w, signed, ok := intWidth(u); ok {
			if signed {
				return mkInt(w, uint64(rv.Int()))
			}
			return mkInt(w, rv.Uint())
		}
		switch {
		case u.Info()&types.IsBoolean != 0:
			return SBool{V: rv.Bool()}
		case u.Info()&types.IsFloat != 0:
			w := uint8(64)
			if u.Kind() == types.Float32 {
				w = 32
			}
			return SFloat{V: rv.Float(), W: w}
		case u.Info()&types.IsString != 0:
			return Str{S: rv.String()}
		case u.Kind() == types.UnsafePointer:
			return UnsafePtr{}
		}
	case *types.Pointer:
		if opaquePtrTypes[t.String()] || opaquePtrTypes[types.TypeString(t, nil)] {
			if rv.IsNil() {
				return Native{nil}
			}
			return Native{reflect.NewAt(rv.Type().Elem(), rv.UnsafePointer()).Interface()}
		}
		if rv.IsNil() {
			return Ptr(nil)
		}
		key := rv.UnsafePointer()
		if p, ok := mc.memo[key]; ok {
			return p
		}
		p := new(Value)
		mc.memo[key] = p
		*p = mc.fromNative(rv.Elem(), u.Elem())
		return p
	case *types.Struct:
		s := make(Struct, u.NumFields())
		for i := range s {
			s[i] = mc.fromNative(rv.Field(i), u.Field(i).Type())
		}
		return s
	case *types.Array:
		a := make(Array, u.Len())
		for i := range a {
			a[i] = mc.fromNative(rv.Index(i), u.Elem())
		}
		return a
	case *types.Slice:
		if rv.IsNil() {
			return Slice{}
		}
		n := rv.Len()
		b := make([]Value, n)
		for i := 0; i < n; i++ {
			b[i] = mc.fromNative(rv.Index(i), u.Elem())
		}
		return Slice{B: b, L: n}
	case *types.Map:
		if rv.IsNil() {
			return (*Map)(nil)
		}
		m := newMap(u.Key())
		keys := rv.MapKeys()
		// deterministic insertion order
		sortReflectKeys(keys)
		for _, k := range keys {
			in.mapStore(nil, m, mc.fromNative(k, u.Key()), mc.fromNative(rv.MapIndex(k), u.Elem()))
		}
		return m
	case *types.Interface:
		if rv.Kind() == reflect.Interface {
			if rv.IsNil() {
				return Iface{}
			}
			rv = rv.Elem()
		}
		dt := in.P.typeOfReflect(rv.Type())
		if dt == nil {
			// keep as an opaque native value (e.g. an error of an unloaded type)
			return Iface{T: nativeOpaqueType, V: Native{forceInterface(rv)}}
		}
		return Iface{T: dt, V: mc.fromNative(rv, dt)}
	case *types.Signature:
		if rv.IsNil() {
			return (*ssa_Function)(nil)
		}
		return Native{forceInterface(rv)}
	}
	panic(fmt.Sprintf("fromNative: unsupported type %v (%v)", t, rv.Kind()))
}

var nativeOpaqueType types.Type = types.NewNamed(types.NewTypeName(0, nil, "nativeOpaque", nil), types.NewStruct(nil, nil), nil)

func forceInterface(rv reflect.Value) any {
	if rv.CanInterface() {
		return rv.Interface()
	}
	if rv.CanAddr() {
		return reflect.NewAt(rv.Type(), unsafe.Pointer(rv.UnsafeAddr())).Elem().Interface()
	}
	// copy to an addressable location
	c := reflect.New(rv.Type()).Elem()
	setAny(c, rv)
	return c.Interface()
}

func setAny(dst, src reflect.Value) {
	switch src.Kind() {
	case reflect.Bool:
		dst.SetBool(src.Bool())
	case reflect.Int, reflect.Int8, reflect.Int16, reflect.Int32, reflect.Int64:
		dst.SetInt(src.Int())
	case reflect.Uint, reflect.Uint8, reflect.Uint16, reflect.Uint32, reflect.Uint64, reflect.Uintptr:
		dst.SetUint(src.Uint())
	case reflect.Float32, reflect.Float64:
		dst.SetFloat(src.Float())
	case reflect.String:
		dst.SetString(src.String())
	default:
		panic("setAny: " + src.Kind().String())
	}
}

func sortReflectKeys(keys []reflect.Value) {
	if len(keys) == 0 || keys[0].Kind() != reflect.String {
		return
	}
	for i := 1; i < len(keys); i++ {
		for j := i; j > 0 && keys[j].String() < keys[j-1].String(); j-- {
			keys[j], keys[j-1] = keys[j-1], keys[j]
		}
	}
}

// writable returns a settable view of a (possibly unexported) field.
func writable(f reflect.Value) reflect.Value {
	if f.CanSet() {
		return f
	}
	return reflect.NewAt(f.Type(), unsafe.Pointer(f.UnsafeAddr())).Elem()
}

type unmarshalCtx struct {
	in   *Interp
	memo map[Ptr]reflect.Value
}

// toNative converts an interpreter value to a native one; ok=false if some
// part is symbolic or not representable.
func (uc *unmarshalCtx) toNative(v Value, rt reflect.Type) (out reflect.Value, ok bool) {
	out = reflect.New(rt).Elem()
	switch rt.Kind() {
	case reflect.Bool:
		b, is := v.(SBool)
		if !is || b.T != nil {
			return out, false
		}
		out.SetBool(b.V)
	case reflect.Int, reflect.Int8, reflect.Int16, reflect.Int32, reflect.Int64:
		i, is := v.(SInt)
		if !is || i.T != nil {
			return out, false
		}
		out.SetInt(i.Signed())
	case reflect.Uint, reflect.Uint8, reflect.Uint16, reflect.Uint32, reflect.Uint64, reflect.Uintptr:
		i, is := v.(SInt)
		if !is || i.T != nil {
			return out, false
		}
		out.SetUint(i.V)
	case reflect.Float32, reflect.Float64:
		f, is := v.(SFloat)
		if !is || f.T != nil {
			return out, false
		}
		out.SetFloat(f.V)
	case reflect.String:
		s, is := v.(Str)
		if !is || !s.IsConcrete() {
			return out, false
		}
		out.SetString(s.S)
	case reflect.Slice:
		s, is := v.(Slice)
		if !is {
			return out, false
		}
		if s.B == nil {
			return out, true
		}
		sl := reflect.MakeSlice(rt, s.L, s.L)
		for i := 0; i < s.L; i++ {
			e, ok := uc.toNative(s.B[i], rt.Elem())
			if !ok {
				return out, false
			}
			sl.Index(i).Set(e)
		}
		out.Set(sl)
	case reflect.Array:
		a, is := v.(Array)
		if !is {
			return out, false
		}
		for i := range a {
			e, ok := uc.toNative(a[i], rt.Elem())
			if !ok {
				return out, false
			}
			out.Index(i).Set(e)
		}
	case reflect.Struct:
		s, is := v.(Struct)
		if !is || len(s) != rt.NumField() {
			return out, false
		}
		for i := range s {
			e, ok := uc.toNative(s[i], rt.Field(i).Type)
			if !ok {
				return out, false
			}
			writable(out.Field(i)).Set(e)
		}
	case reflect.Ptr:
		switch p := v.(type) {
		case Native:
			if p.X == nil {
				return out, true
			}
			nv := reflect.ValueOf(p.X)
			if !nv.Type().AssignableTo(rt) {
				return out, false
			}
			out.Set(nv)
		case Ptr:
			if p == nil {
				return out, true
			}
			if m, ok := uc.memo[p]; ok {
				out.Set(m)
				return out, true
			}
			np := reflect.New(rt.Elem())
			uc.memo[p] = np
			e, ok := uc.toNative(*p, rt.Elem())
			if !ok {
				return out, false
			}
			np.Elem().Set(e)
			out.Set(np)
		default:
			return out, false
		}
	case reflect.Map:
		m, is := v.(*Map)
		if !is {
			return out, false
		}
		if m == nil {
			return out, true
		}
		nm := reflect.MakeMap(rt)
		for _, e := range m.liveEntries() {
			k, ok1 := uc.toNative(e.k, rt.Key())
			x, ok2 := uc.toNative(e.v, rt.Elem())
			if !ok1 || !ok2 {
				return out, false
			}
			nm.SetMapIndex(k, x)
		}
		out.Set(nm)
	case reflect.Interface:
		f, is := v.(Iface)
		if !is {
			return out, false
		}
		if f.T == nil {
			return out, true
		}
		if n, isN := f.V.(Native); isN {
			nv := reflect.ValueOf(n.X)
			if nv.IsValid() && nv.Type().AssignableTo(rt) {
				out.Set(nv)
				return out, true
			}
			return out, false
		}
		drt := reflectTypeOf(f.T)
		if drt == nil {
			return out, false
		}
		e, ok := uc.toNative(f.V, drt)
		if !ok || !e.Type().AssignableTo(rt) {
			return out, false
		}
		out.Set(e)
	default:
		return out, false
	}
	return out, true
}

// reflectTypeOf maps the few go/types types that cross into native code as
// interface payloads (JSON values) to reflect types.
func reflectTypeOf(t types.Type) reflect.Type {
	switch u := types.Unalias(t).(type) {
	case *types.Basic:
		switch u.Kind() {
		case types.Bool:
			return reflect.TypeOf(false)
		case types.Int:
			return reflect.TypeOf(int(0))
		case types.Int64:
			return reflect.TypeOf(int64(0))
		case types.Uint64:
			return reflect.TypeOf(uint64(0))
		case types.Uint:
			return reflect.TypeOf(uint(0))
		case types.Float64:
			return reflect.TypeOf(float64(0))
		case types.String:
			return reflect.TypeOf("")
		case types.Uint8:
			return reflect.TypeOf(uint8(0))
		case types.Int32:
			return reflect.TypeOf(int32(0))
		}
	case *types.Slice:
		if e := reflectTypeOf(u.Elem()); e != nil {
			return reflect.SliceOf(e)
		}
	case *types.Map:
		k, e := reflectTypeOf(u.Key()), reflectTypeOf(u.Elem())
		if k != nil && e != nil {
			return reflect.MapOf(k, e)
		}
	case *types.Interface:
		if u.NumMethods() == 0 {
			return reflect.TypeOf((*any)(nil)).Elem()
		}
	case *types.Named:
		if r, ok := namedReflectTypes[u.String()]; ok {
			return r
		}
	case *types.Pointer:
		if e := reflectTypeOf(u.Elem()); e != nil {
			return reflect.PointerTo(e)
		}
	}
	return nil
}

var namedReflectTypes = map[string]reflect.Type{}

// callNative calls a native function value with interpreter arguments.
// handled=false when an argument cannot be marshalled (e.g. it is symbolic).
func (in *Interp) callNative(fr *frame, fnv any, sig *types.Signature, args []Value) (res Value, handled bool) {
	rf := reflect.ValueOf(fnv)
	rt := rf.Type()
	if in.concretizeInts {
		in.concretizeInts = false
		args = append([]Value(nil), args...)
		for i, a := range args {
			if x, ok := a.(SInt); ok && x.T != nil {
				args[i] = SInt{W: x.W, V: in.ex.Concretize(x.T)}
			}
		}
	}
	uc := &unmarshalCtx{in: in, memo: map[Ptr]reflect.Value{}}
	nargs := make([]reflect.Value, len(args))
	if rt.IsVariadic() {
		// ssa passes the variadic parameter as a slice
		for i := range args {
			var pt reflect.Type
			if i < rt.NumIn() {
				pt = rt.In(i)
			}
			a, ok := uc.toNative(args[i], pt)
			if !ok {
				return nil, false
			}
			nargs[i] = a
		}
	} else {
		if len(args) != rt.NumIn() {
			panic(fmt.Sprintf("callNative: %d args for %v", len(args), rt))
		}
		for i := range args {
			a, ok := uc.toNative(args[i], rt.In(i))
			if !ok {
				return nil, false
			}
			nargs[i] = a
		}
	}
	var outs []reflect.Value
	var pan any
	func() {
		defer func() { pan = recover() }()
		if rt.IsVariadic() {
			outs = rf.CallSlice(nargs)
		} else {
			outs = rf.Call(nargs)
		}
	}()
	if pan != nil {
		in.throwNative(fr, pan)
	}
	mc := &marshalCtx{in: in, memo: map[unsafe.Pointer]Ptr{}}
	results := sig.Results()
	switch results.Len() {
	case 0:
		return nil, true
	case 1:
		return mc.fromNative(outs[0], results.At(0).Type()), true
	}
	tu := make(Tuple, results.Len())
	for i := range tu {
		tu[i] = mc.fromNative(outs[i], results.At(i).Type())
	}
	return tu, true
}

func (in *Interp) throwNative(fr *frame, pan any) {
	msg := fmt.Sprint(pan)
	if e, ok := pan.(error); ok {
		msg = e.Error()
	}
	site := ""
	if fr != nil {
		site = fr.servitorSite()
	}
	panic(&targetPanic{v: Iface{T: types.Typ[types.String], V: Str{S: msg}}, msg: msg, site: site})
}
