package main

// Term DAG: hash-consed SMT terms over Bool, bit-vectors (8/16/32/64) and
// IEEE double. One TermBank per explored path (ids restart per path so the
// SMT text is deterministic under re-execution).

import (
	"fmt"
	"math"
	"math/bits"
	"strconv"
	"strings"
)

type Sort uint8

const (
	SoBool Sort = iota
	SoBV8
	SoBV16
	SoBV32
	SoBV64
	SoFP64
)

func (s Sort) Width() uint {
	switch s {
	case SoBool:
		return 1
	case SoBV8:
		return 8
	case SoBV16:
		return 16
	case SoBV32:
		return 32
	case SoBV64, SoFP64:
		return 64
	}
	return 0
}

func bvSort(w uint) Sort {
	switch w {
	case 8:
		return SoBV8
	case 16:
		return SoBV16
	case 32:
		return SoBV32
	case 64:
		return SoBV64
	}
	panic(fmt.Sprintf("bad bv width %d", w))
}

func (s Sort) SMT() string {
	switch s {
	case SoBool:
		return "Bool"
	case SoFP64:
		return "(_ FloatingPoint 11 53)"
	default:
		return fmt.Sprintf("(_ BitVec %d)", s.Width())
	}
}

type Op uint8

const (
	OpConst Op = iota
	OpVar
	OpNot
	OpAnd
	OpOr
	OpIte
	OpEq
	OpBvAdd
	OpBvSub
	OpBvMul
	OpBvUDiv
	OpBvURem
	OpBvSDiv
	OpBvSRem
	OpBvAnd
	OpBvOr
	OpBvXor
	OpBvNot
	OpBvNeg
	OpBvShl
	OpBvLshr
	OpBvAshr
	OpBvUlt
	OpBvUle
	OpBvSlt
	OpBvSle
	OpZext    // to sort
	OpSext    // to sort
	OpExtract // low bits to sort
	OpFpEq
	OpFpLt
	OpFpLe
	OpFpNeg
	OpFpAdd
	OpFpSub
	OpFpMul
	OpFpDiv
	OpFpRTZ     // roundToIntegral RTZ
	OpFpRTN     // roundToIntegral RTN (floor)
	OpFpRTP     // roundToIntegral RTP (ceil)
	OpFpRNE     // roundToIntegral RNE (round half to even)
	OpFpRNA     // roundToIntegral RNA (round half away from zero)
	OpFpAbs
	OpFpIsNaN   // Bool
	OpFpFromSBV // to_fp signed bv64 (RNE)
	OpFpFromUBV
	OpFpToSBV // fp.to_sbv 64 RTZ
	OpFpToUBV
	OpFpBits // reinterpret: not in SMT-LIB as function; unsupported for sym
)

var opNames = map[Op]string{
	OpNot: "not", OpAnd: "and", OpOr: "or", OpIte: "ite", OpEq: "=",
	OpBvAdd: "bvadd", OpBvSub: "bvsub", OpBvMul: "bvmul", OpBvUDiv: "bvudiv", OpBvURem: "bvurem",
	OpBvSDiv: "bvsdiv", OpBvSRem: "bvsrem", OpBvAnd: "bvand", OpBvOr: "bvor", OpBvXor: "bvxor",
	OpBvNot: "bvnot", OpBvNeg: "bvneg", OpBvShl: "bvshl", OpBvLshr: "bvlshr", OpBvAshr: "bvashr",
	OpBvUlt: "bvult", OpBvUle: "bvule", OpBvSlt: "bvslt", OpBvSle: "bvsle",
	OpFpEq: "fp.eq", OpFpLt: "fp.lt", OpFpLe: "fp.leq", OpFpNeg: "fp.neg",
	OpFpIsNaN: "fp.isNaN",
}

type Term struct {
	id   int
	op   Op
	sort Sort
	args []*Term
	c    uint64 // constant value (bool: 0/1; fp: bits)
	name string // variable name
}

func (t *Term) IsConst() bool { return t.op == OpConst }

type TermBank struct {
	tab   map[string]*Term
	n     int
	vars  []*Term
	byVar map[string]*Term
}

func NewTermBank() *TermBank {
	return &TermBank{tab: map[string]*Term{}, byVar: map[string]*Term{}}
}

func (b *TermBank) mk(op Op, sort Sort, c uint64, name string, args ...*Term) *Term {
	var sb strings.Builder
	sb.WriteByte(byte(op))
	sb.WriteByte(byte(sort))
	if op == OpConst {
		sb.WriteString(strconv.FormatUint(c, 16))
	}
	if op == OpVar {
		sb.WriteString(name)
	}
	for _, a := range args {
		sb.WriteByte(',')
		sb.WriteString(strconv.Itoa(a.id))
	}
	k := sb.String()
	if t, ok := b.tab[k]; ok {
		return t
	}
	b.n++
	t := &Term{id: b.n, op: op, sort: sort, args: args, c: c, name: name}
	b.tab[k] = t
	return t
}

func mask(w uint) uint64 {
	if w >= 64 {
		return ^uint64(0)
	}
	return (uint64(1) << w) - 1
}

func (b *TermBank) Const(sort Sort, c uint64) *Term {
	if sort != SoFP64 {
		c &= mask(sort.Width())
	}
	return b.mk(OpConst, sort, c, "")
}
func (b *TermBank) Bool(v bool) *Term {
	if v {
		return b.Const(SoBool, 1)
	}
	return b.Const(SoBool, 0)
}
func (b *TermBank) Var(sort Sort, name string) *Term {
	if t, ok := b.byVar[name]; ok {
		if t.sort != sort {
			panic("variable " + name + " redeclared at another sort")
		}
		return t
	}
	t := b.mk(OpVar, sort, 0, name)
	b.byVar[name] = t
	b.vars = append(b.vars, t)
	return t
}

func sext(v uint64, w uint) int64 {
	if w >= 64 {
		return int64(v)
	}
	sh := 64 - w
	return int64(v<<sh) >> sh
}

// ---- boolean builders with local simplification

func (b *TermBank) Not(x *Term) *Term {
	if x.op == OpConst {
		return b.Bool(x.c == 0)
	}
	if x.op == OpNot {
		return x.args[0]
	}
	return b.mk(OpNot, SoBool, 0, "", x)
}
func (b *TermBank) And(x, y *Term) *Term {
	if x.op == OpConst {
		if x.c == 0 {
			return x
		}
		return y
	}
	if y.op == OpConst {
		if y.c == 0 {
			return y
		}
		return x
	}
	if x == y {
		return x
	}
	return b.mk(OpAnd, SoBool, 0, "", x, y)
}
func (b *TermBank) Or(x, y *Term) *Term {
	if x.op == OpConst {
		if x.c != 0 {
			return x
		}
		return y
	}
	if y.op == OpConst {
		if y.c != 0 {
			return y
		}
		return x
	}
	if x == y {
		return x
	}
	return b.mk(OpOr, SoBool, 0, "", x, y)
}
func (b *TermBank) Ite(c, x, y *Term) *Term {
	if c.op == OpConst {
		if c.c != 0 {
			return x
		}
		return y
	}
	if x == y {
		return x
	}
	if x.sort == SoBool && x.op == OpConst && y.op == OpConst {
		if x.c != 0 && y.c == 0 {
			return c
		}
		if x.c == 0 && y.c != 0 {
			return b.Not(c)
		}
	}
	return b.mk(OpIte, x.sort, 0, "", c, x, y)
}
func (b *TermBank) Eq(x, y *Term) *Term {
	if x.sort != y.sort {
		panic(fmt.Sprintf("Eq sort mismatch %v %v", x.sort, y.sort))
	}
	if x == y && x.sort != SoFP64 {
		return b.Bool(true)
	}
	if x.op == OpConst && y.op == OpConst {
		if x.sort == SoFP64 {
			return b.Bool(math.Float64frombits(x.c) == math.Float64frombits(y.c))
		}
		return b.Bool(x.c == y.c)
	}
	if x.sort == SoFP64 {
		return b.mk(OpFpEq, SoBool, 0, "", x, y)
	}
	if x.sort == SoBool {
		if x.op == OpConst {
			if x.c != 0 {
				return y
			}
			return b.Not(y)
		}
		if y.op == OpConst {
			if y.c != 0 {
				return x
			}
			return b.Not(x)
		}
	}
	// ite(c, k1, k2) == k  with constants
	if y.op == OpConst && x.op == OpIte && x.args[1].op == OpConst && x.args[2].op == OpConst {
		a, bb := x.args[1].c == y.c, x.args[2].c == y.c
		switch {
		case a && bb:
			return b.Bool(true)
		case a:
			return x.args[0]
		case bb:
			return b.Not(x.args[0])
		default:
			return b.Bool(false)
		}
	}
	if x.op == OpConst { // canonical: constant on the right
		x, y = y, x
	}
	// zext(a) == const  ->  a == const' or false
	if y.op == OpConst && x.op == OpZext {
		in := x.args[0]
		if y.c&^mask(in.sort.Width()) != 0 {
			return b.Bool(false)
		}
		return b.Eq(in, b.Const(in.sort, y.c))
	}
	return b.mk(OpEq, SoBool, 0, "", x, y)
}

// ---- bit-vector builders

func (b *TermBank) Bin(op Op, x, y *Term) *Term {
	if x.sort != y.sort {
		panic(fmt.Sprintf("Bin %s sort mismatch %v %v", opNames[op], x.sort, y.sort))
	}
	w := x.sort.Width()
	if x.op == OpConst && y.op == OpConst {
		if r, ok := evalBin(op, x.c, y.c, w); ok {
			if isCmp(op) {
				return b.Bool(r != 0)
			}
			return b.Const(x.sort, r)
		}
	}
	// identities
	switch op {
	case OpBvAdd, OpBvOr, OpBvXor:
		if x.op == OpConst && x.c == 0 {
			return y
		}
		if y.op == OpConst && y.c == 0 {
			return x
		}
	case OpBvSub, OpBvShl, OpBvLshr, OpBvAshr:
		if y.op == OpConst && y.c == 0 {
			return x
		}
	case OpBvAnd:
		if x.op == OpConst && x.c == mask(w) {
			return y
		}
		if y.op == OpConst && y.c == mask(w) {
			return x
		}
		if (x.op == OpConst && x.c == 0) || (y.op == OpConst && y.c == 0) {
			return b.Const(x.sort, 0)
		}
	case OpBvMul:
		if x.op == OpConst && x.c == 1 {
			return y
		}
		if y.op == OpConst && y.c == 1 {
			return x
		}
	case OpBvUlt:
		if y.op == OpConst && y.c == 0 {
			return b.Bool(false)
		}
	case OpBvUle:
		if x.op == OpConst && x.c == 0 {
			return b.Bool(true)
		}
	}
	// comparisons of zext(a) with constants fold to the narrow width
	if isCmp(op) && (op == OpBvUlt || op == OpBvUle) {
		if x.op == OpZext && y.op == OpConst {
			in := x.args[0]
			if y.c > mask(in.sort.Width()) {
				return b.Bool(true)
			}
			return b.Bin(op, in, b.Const(in.sort, y.c))
		}
		if y.op == OpZext && x.op == OpConst {
			in := y.args[0]
			if x.c > mask(in.sort.Width()) {
				return b.Bool(false)
			}
			return b.Bin(op, b.Const(in.sort, x.c), in)
		}
	}
	if isCmp(op) && (op == OpBvSlt || op == OpBvSle) {
		// zext values are non-negative and below 2^inw: signed compare with a
		// constant equals the unsigned one when the constant is non-negative.
		if x.op == OpZext && y.op == OpConst && x.args[0].sort.Width() < w {
			if sext(y.c, w) < 0 {
				return b.Bool(false)
			}
			uop := OpBvUlt
			if op == OpBvSle {
				uop = OpBvUle
			}
			return b.Bin(uop, x, y)
		}
		if y.op == OpZext && x.op == OpConst && y.args[0].sort.Width() < w {
			if sext(x.c, w) < 0 {
				return b.Bool(true)
			}
			uop := OpBvUlt
			if op == OpBvSle {
				uop = OpBvUle
			}
			return b.Bin(uop, x, y)
		}
	}
	sort := x.sort
	if isCmp(op) {
		sort = SoBool
	}
	return b.mk(op, sort, 0, "", x, y)
}

func isCmp(op Op) bool {
	switch op {
	case OpBvUlt, OpBvUle, OpBvSlt, OpBvSle:
		return true
	}
	return false
}

func b2u(v bool) uint64 {
	if v {
		return 1
	}
	return 0
}

// evalBin evaluates a bit-vector binary op on w-bit values with SMT-LIB
// semantics (division by zero: udiv = all ones, urem = x; sdiv/srem derived).
func evalBin(op Op, x, y uint64, w uint) (uint64, bool) {
	m := mask(w)
	x &= m
	y &= m
	switch op {
	case OpBvAdd:
		return (x + y) & m, true
	case OpBvSub:
		return (x - y) & m, true
	case OpBvMul:
		return (x * y) & m, true
	case OpBvUDiv:
		if y == 0 {
			return m, true
		}
		return x / y, true
	case OpBvURem:
		if y == 0 {
			return x, true
		}
		return x % y, true
	case OpBvSDiv:
		sx, sy := sext(x, w), sext(y, w)
		if sy == 0 {
			if sx < 0 {
				return 1, true
			}
			return m, true
		}
		if sx == math.MinInt64 && sy == -1 {
			return x, true
		}
		return uint64(sx/sy) & m, true
	case OpBvSRem:
		sx, sy := sext(x, w), sext(y, w)
		if sy == 0 {
			return x, true
		}
		if sx == math.MinInt64 && sy == -1 {
			return 0, true
		}
		return uint64(sx%sy) & m, true
	case OpBvAnd:
		return x & y, true
	case OpBvOr:
		return x | y, true
	case OpBvXor:
		return x ^ y, true
	case OpBvShl:
		if y >= uint64(w) {
			return 0, true
		}
		return (x << y) & m, true
	case OpBvLshr:
		if y >= uint64(w) {
			return 0, true
		}
		return x >> y, true
	case OpBvAshr:
		sx := sext(x, w)
		if y >= uint64(w) {
			if sx < 0 {
				return m, true
			}
			return 0, true
		}
		return uint64(sx>>y) & m, true
	case OpBvUlt:
		return b2u(x < y), true
	case OpBvUle:
		return b2u(x <= y), true
	case OpBvSlt:
		return b2u(sext(x, w) < sext(y, w)), true
	case OpBvSle:
		return b2u(sext(x, w) <= sext(y, w)), true
	}
	return 0, false
}

func (b *TermBank) BvNot(x *Term) *Term {
	if x.op == OpConst {
		return b.Const(x.sort, ^x.c)
	}
	return b.mk(OpBvNot, x.sort, 0, "", x)
}
func (b *TermBank) BvNeg(x *Term) *Term {
	if x.op == OpConst {
		return b.Const(x.sort, -x.c)
	}
	return b.mk(OpBvNeg, x.sort, 0, "", x)
}

// Resize converts bit-vector x to width w (zero- or sign-extending, or
// truncating).
func (b *TermBank) Resize(x *Term, w uint, signed bool) *Term {
	xw := x.sort.Width()
	if xw == w {
		return x
	}
	to := bvSort(w)
	if x.op == OpConst {
		if w > xw && signed {
			return b.Const(to, uint64(sext(x.c, xw)))
		}
		return b.Const(to, x.c)
	}
	if w < xw {
		// extract(zext(a)) where a fits
		if (x.op == OpZext || x.op == OpSext) && x.args[0].sort.Width() == w {
			return x.args[0]
		}
		if x.op == OpZext && x.args[0].sort.Width() < w {
			return b.mk(OpZext, to, 0, "", x.args[0])
		}
		return b.mk(OpExtract, to, 0, "", x)
	}
	if signed {
		return b.mk(OpSext, to, 0, "", x)
	}
	if x.op == OpZext {
		return b.mk(OpZext, to, 0, "", x.args[0])
	}
	return b.mk(OpZext, to, 0, "", x)
}

// ---- floating point

func (b *TermBank) FpConst(f float64) *Term { return b.Const(SoFP64, math.Float64bits(f)) }

func (b *TermBank) FpCmp(op Op, x, y *Term) *Term {
	if x.op == OpConst && y.op == OpConst {
		fx, fy := math.Float64frombits(x.c), math.Float64frombits(y.c)
		switch op {
		case OpFpEq:
			return b.Bool(fx == fy)
		case OpFpLt:
			return b.Bool(fx < fy)
		case OpFpLe:
			return b.Bool(fx <= fy)
		}
	}
	return b.mk(op, SoBool, 0, "", x, y)
}
func (b *TermBank) FpArith(op Op, x, y *Term) *Term {
	if x.op == OpConst && y.op == OpConst {
		fx, fy := math.Float64frombits(x.c), math.Float64frombits(y.c)
		switch op {
		case OpFpAdd:
			return b.FpConst(fx + fy)
		case OpFpSub:
			return b.FpConst(fx - fy)
		case OpFpMul:
			return b.FpConst(fx * fy)
		case OpFpDiv:
			return b.FpConst(fx / fy)
		}
	}
	return b.mk(op, SoFP64, 0, "", x, y)
}
func fpRoundConst(op Op, f float64) float64 {
	switch op {
	case OpFpRTN:
		return math.Floor(f)
	case OpFpRTP:
		return math.Ceil(f)
	case OpFpRNE:
		return math.RoundToEven(f)
	case OpFpRNA:
		return math.Round(f)
	case OpFpAbs:
		return math.Abs(f)
	}
	panic("fpRoundConst")
}

func (b *TermBank) FpUn(op Op, x *Term) *Term {
	switch op {
	case OpFpIsNaN:
		if x.op == OpConst {
			return b.Bool(math.IsNaN(math.Float64frombits(x.c)))
		}
		return b.mk(op, SoBool, 0, "", x)
	case OpFpNeg:
		if x.op == OpConst {
			return b.FpConst(-math.Float64frombits(x.c))
		}
		return b.mk(op, SoFP64, 0, "", x)
	case OpFpRTZ:
		if x.op == OpConst {
			return b.FpConst(math.Trunc(math.Float64frombits(x.c)))
		}
		return b.mk(op, SoFP64, 0, "", x)
	case OpFpRTN, OpFpRTP, OpFpRNE, OpFpRNA, OpFpAbs:
		if x.op == OpConst {
			return b.FpConst(fpRoundConst(op, math.Float64frombits(x.c)))
		}
		return b.mk(op, SoFP64, 0, "", x)
	case OpFpToSBV, OpFpToUBV:
		return b.mk(op, SoBV64, 0, "", x)
	case OpFpFromSBV:
		if x.op == OpConst {
			return b.FpConst(float64(int64(x.c)))
		}
		return b.mk(op, SoFP64, 0, "", x)
	case OpFpFromUBV:
		if x.op == OpConst {
			return b.FpConst(float64(x.c))
		}
		return b.mk(op, SoFP64, 0, "", x)
	}
	panic("FpUn")
}

// ---- SMT-LIB printing

func constSMT(t *Term) string {
	switch t.sort {
	case SoBool:
		if t.c != 0 {
			return "true"
		}
		return "false"
	case SoFP64:
		return fmt.Sprintf("(fp #b%d #b%011b #x%013x)", t.c>>63, (t.c>>52)&0x7ff, t.c&((1<<52)-1))
	default:
		w := t.sort.Width()
		return fmt.Sprintf("#x%0*x", int(w/4), t.c)
	}
}

func (t *Term) ref() string {
	switch t.op {
	case OpConst:
		return constSMT(t)
	case OpVar:
		return "|" + t.name + "|"
	}
	return "t" + strconv.Itoa(t.id)
}

// body prints the defining expression of a compound term using refs for args.
func (t *Term) body() string {
	a := func(i int) string { return t.args[i].ref() }
	switch t.op {
	case OpZext:
		return fmt.Sprintf("((_ zero_extend %d) %s)", t.sort.Width()-t.args[0].sort.Width(), a(0))
	case OpSext:
		return fmt.Sprintf("((_ sign_extend %d) %s)", t.sort.Width()-t.args[0].sort.Width(), a(0))
	case OpExtract:
		return fmt.Sprintf("((_ extract %d 0) %s)", t.sort.Width()-1, a(0))
	case OpFpAdd:
		return "(fp.add RNE " + a(0) + " " + a(1) + ")"
	case OpFpSub:
		return "(fp.sub RNE " + a(0) + " " + a(1) + ")"
	case OpFpMul:
		return "(fp.mul RNE " + a(0) + " " + a(1) + ")"
	case OpFpDiv:
		return "(fp.div RNE " + a(0) + " " + a(1) + ")"
	case OpFpRTZ:
		return "(fp.roundToIntegral RTZ " + a(0) + ")"
	case OpFpRTN:
		return "(fp.roundToIntegral RTN " + a(0) + ")"
	case OpFpRTP:
		return "(fp.roundToIntegral RTP " + a(0) + ")"
	case OpFpRNE:
		return "(fp.roundToIntegral RNE " + a(0) + ")"
	case OpFpRNA:
		return "(fp.roundToIntegral RNA " + a(0) + ")"
	case OpFpAbs:
		return "(fp.abs " + a(0) + ")"
	case OpFpFromSBV:
		return "((_ to_fp 11 53) RNE " + a(0) + ")"
	case OpFpFromUBV:
		return "((_ to_fp_unsigned 11 53) RNE " + a(0) + ")"
	case OpFpToSBV:
		return "((_ fp.to_sbv 64) RTZ " + a(0) + ")"
	case OpFpToUBV:
		return "((_ fp.to_ubv 64) RTZ " + a(0) + ")"
	}
	n, ok := opNames[t.op]
	if !ok {
		panic(fmt.Sprintf("no SMT name for op %d", t.op))
	}
	var sb strings.Builder
	sb.WriteByte('(')
	sb.WriteString(n)
	for i := range t.args {
		sb.WriteByte(' ')
		sb.WriteString(a(i))
	}
	sb.WriteByte(')')
	return sb.String()
}

// ---- evaluation under a model

type Model map[string]uint64

func (m Model) Eval(t *Term) uint64 {
	memo := map[*Term]uint64{}
	return m.eval(t, memo)
}

func (m Model) eval(t *Term, memo map[*Term]uint64) uint64 {
	if t.op == OpConst {
		return t.c
	}
	if v, ok := memo[t]; ok {
		return v
	}
	var r uint64
	ev := func(i int) uint64 { return m.eval(t.args[i], memo) }
	fl := func(i int) float64 { return math.Float64frombits(ev(i)) }
	switch t.op {
	case OpVar:
		r = m[t.name]
		if t.sort != SoFP64 {
			r &= mask(t.sort.Width())
		}
	case OpNot:
		r = 1 - ev(0)
	case OpAnd:
		r = ev(0) & ev(1)
	case OpOr:
		r = ev(0) | ev(1)
	case OpIte:
		if ev(0) != 0 {
			r = ev(1)
		} else {
			r = ev(2)
		}
	case OpEq:
		r = b2u(ev(0) == ev(1))
	case OpBvNot:
		r = ^ev(0) & mask(t.sort.Width())
	case OpBvNeg:
		r = -ev(0) & mask(t.sort.Width())
	case OpZext:
		r = ev(0)
	case OpSext:
		r = uint64(sext(ev(0), t.args[0].sort.Width())) & mask(t.sort.Width())
	case OpExtract:
		r = ev(0) & mask(t.sort.Width())
	case OpFpEq:
		r = b2u(fl(0) == fl(1))
	case OpFpLt:
		r = b2u(fl(0) < fl(1))
	case OpFpLe:
		r = b2u(fl(0) <= fl(1))
	case OpFpNeg:
		r = math.Float64bits(-fl(0))
	case OpFpAdd:
		r = math.Float64bits(fl(0) + fl(1))
	case OpFpSub:
		r = math.Float64bits(fl(0) - fl(1))
	case OpFpMul:
		r = math.Float64bits(fl(0) * fl(1))
	case OpFpDiv:
		r = math.Float64bits(fl(0) / fl(1))
	case OpFpRTN, OpFpRTP, OpFpRNE, OpFpRNA, OpFpAbs:
		r = math.Float64bits(fpRoundConst(t.op, fl(0)))
	case OpFpRTZ:
		r = math.Float64bits(math.Trunc(fl(0)))
	case OpFpIsNaN:
		r = b2u(math.IsNaN(fl(0)))
	case OpFpFromSBV:
		r = math.Float64bits(float64(int64(ev(0))))
	case OpFpFromUBV:
		r = math.Float64bits(float64(ev(0)))
	case OpFpToSBV:
		r = uint64(int64(fl(0)))
	case OpFpToUBV:
		f := fl(0)
		if f >= 0 && f < 18446744073709551616.0 {
			r = uint64(f)
		} else {
			r = 0
		}
	default:
		v, ok := evalBin(t.op, ev(0), ev(1), t.args[0].sort.Width())
		if !ok {
			panic(fmt.Sprintf("eval: op %d", t.op))
		}
		r = v
	}
	memo[t] = r
	return r
}

var _ = bits.Len
