package main

// Stateless depth-first exploration by re-execution. A path is identified by
// its decision vector.

import (
	"fmt"
	"os"
	"sort"
	"strings"
	"sync"
	"time"

	"golang.org/x/tools/go/ssa"
)

type Dec struct {
	K byte  // 'b' branch, 'f' forced branch, 'c' choice, 'v' value==V, 'n' value!=V, 'F' forced value
	V int64 // side / index / value
}

type Violation struct {
	Kind    string // assert | panic | deadlock | race
	Label   string
	Site    string
	Msg     string
	Model   Model
	Inputs  map[string]uint64
	Harness string
	Trail   []Dec
	Stack   []string
	Known   string // id of the known finding that covers it ("" = unlisted)
	What    string
}

type PathStats struct {
	Branches, Choices, Concretizations int
	AssertQueries, AssertUnsat          int
}

type PathCtx struct {
	tb     *TermBank
	solver *Solver
	prefix []Dec
	pos    int
	trail  []Dec
	alts   [][]Dec
	M      Model
	pc     []*Term
	viol   []*Violation
	stats  PathStats
	unknowns int
	cascaded int
	sent     int
	started  bool
	in     *Interp
	asserts map[string]*AssertSite
	reached map[string]bool
	cfg    *RunConfig
	nameCount map[string]int
	decided map[*Term]bool
	forks  map[string]int
	inputs []namedInput
	twin   bool
}

type namedInput struct {
	Name string
	T    *Term
}

type AssertSite struct {
	Label     string
	Evaluated int
	Violated  int
	NonTrivial int // condition was not a constant
}

func (p *PathCtx) replaying() bool { return p.pos < len(p.prefix) }

func (p *PathCtx) cloneTrail(extra Dec) []Dec {
	t := make([]Dec, len(p.trail)+1)
	copy(t, p.trail)
	t[len(p.trail)] = extra
	return t
}

func (p *PathCtx) assertPC(c *Term) {
	p.pc = append(p.pc, c)
	if p.M != nil && p.M.Eval(c) == 0 {
		p.M = nil
	}
}

// flush sends the assertions not yet given to the solver (purely concrete
// paths never talk to it).
func (p *PathCtx) flush() {
	if !p.started {
		p.solver.Reset()
		p.started = true
	}
	for ; p.sent < len(p.pc); p.sent++ {
		p.solver.Assert(p.pc[p.sent])
	}
}

func (p *PathCtx) checkWith(t *Term) Result {
	p.flush()
	return p.solver.CheckWith(t)
}

func (p *PathCtx) modelWith(t *Term) (Model, Result) {
	p.flush()
	return p.solver.ModelWith(t, p.tb.vars)
}

// ensureModel makes p.M a model of the current path condition.
func (p *PathCtx) ensureModel() {
	if p.M != nil {
		return
	}
	m, r := p.modelWith(nil)
	switch r {
	case Sat:
		p.M = m
	case Unsat:
		p.in.abort("infeasible", "path condition unsatisfiable", p.in.where())
	default:
		p.unknowns++
		p.in.abort("inconclusive", "solver could not decide the path condition", p.in.where())
	}
}

func (p *PathCtx) next() (Dec, bool) {
	if p.pos < len(p.prefix) {
		d := p.prefix[p.pos]
		p.pos++
		p.trail = append(p.trail, d)
		return d, true
	}
	return Dec{}, false
}

// Branch decides a symbolic condition, forking if both sides are feasible.
func (p *PathCtx) Branch(c *Term) bool {
	if c.op == OpConst {
		return c.c != 0
	}
	if v, ok := p.decided[c]; ok {
		return v
	}
	r := p.branch(c)
	p.decided[c] = r
	p.decided[p.tb.Not(c)] = !r
	return r
}

func (p *PathCtx) branch(c *Term) bool {
	p.stats.Branches++
	if d, ok := p.next(); ok {
		switch d.K {
		case 'b':
			if d.V == 1 {
				p.assertPC(c)
			} else {
				p.assertPC(p.tb.Not(c))
			}
			return d.V == 1
		case 'f':
			return d.V == 1
		}
		panic(fmt.Sprintf("replay divergence: Branch met decision %c", d.K))
	}
	p.ensureModel()
	side := p.M.Eval(c) != 0
	// is the other side feasible?
	other := c
	if side {
		other = p.tb.Not(c)
	}
	r := p.checkWith(other)
	if r == Unknown {
		p.unknowns++
	}
	sideV := int64(0)
	if side {
		sideV = 1
	}
	if r == Unsat {
		p.trail = append(p.trail, Dec{'f', sideV})
		return side
	}
	p.alts = append(p.alts, p.cloneTrail(Dec{'b', 1 - sideV}))
	p.forkSite()
	p.trail = append(p.trail, Dec{'b', sideV})
	if side {
		p.assertPC(c)
	} else {
		p.assertPC(p.tb.Not(c))
	}
	return side
}

// Choice is an n-way decision that needs no solver (engine-internal
// nondeterminism such as the scheduler).
func (p *PathCtx) Choice(n int) int {
	if n <= 1 {
		return 0
	}
	p.stats.Choices++
	if d, ok := p.next(); ok {
		if d.K != 'c' {
			panic(fmt.Sprintf("replay divergence: Choice met decision %c", d.K))
		}
		return int(d.V)
	}
	for k := n - 1; k >= 1; k-- {
		p.alts = append(p.alts, p.cloneTrail(Dec{'c', int64(k)}))
		p.forkSite()
	}
	p.trail = append(p.trail, Dec{'c', 0})
	return 0
}

// Bind fixes a fresh input variable to a value chosen by a Choice decision.
func (p *PathCtx) Bind(t *Term, v uint64) {
	c := p.tb.Eq(t, p.tb.Const(t.sort, v))
	p.pc = append(p.pc, c)
	if p.M != nil {
		p.M[t.name] = v
	}
}

// Concretize forks over the feasible values of t and returns the one taken.
func (p *PathCtx) Concretize(t *Term) uint64 {
	if t.op == OpConst {
		return t.c
	}
	p.stats.Concretizations++
	tb := p.tb
	for {
		if d, ok := p.next(); ok {
			v := tb.Const(t.sort, uint64(d.V))
			switch d.K {
			case 'v':
				p.assertPC(tb.Eq(t, v))
				return uint64(d.V) & mask(t.sort.Width())
			case 'F':
				p.assertPC(tb.Eq(t, v))
				return uint64(d.V) & mask(t.sort.Width())
			case 'n':
				p.assertPC(tb.Not(tb.Eq(t, v)))
				continue
			}
			panic(fmt.Sprintf("replay divergence: Concretize met decision %c", d.K))
		}
		p.ensureModel()
		val := p.M.Eval(t)
		v := tb.Const(t.sort, val)
		r := p.checkWith(tb.Not(tb.Eq(t, v)))
		if r == Unknown {
			p.unknowns++
		}
		if r == Unsat {
			p.trail = append(p.trail, Dec{'F', int64(val)})
			p.assertPC(tb.Eq(t, v))
			return val
		}
		p.alts = append(p.alts, p.cloneTrail(Dec{'n', int64(val)}))
		p.forkSite()
		p.trail = append(p.trail, Dec{'v', int64(val)})
		p.assertPC(tb.Eq(t, v))
		return val
	}
}

// Assume constrains the path; an infeasible assumption ends it.
func (p *PathCtx) Assume(c *Term) {
	if c.op == OpConst {
		if c.c == 0 {
			p.in.abort("assume", "assumption false", p.in.where())
		}
		return
	}
	if p.replaying() {
		p.assertPC(c)
		return
	}
	if p.M != nil && p.M.Eval(c) != 0 {
		p.assertPC(c)
		return
	}
	p.assertPC(c)
	p.M = nil
	m, r := p.modelWith(nil)
	switch r {
	case Sat:
		p.M = m
	case Unsat:
		p.in.abort("assume", "assumption infeasible", p.in.where())
	default:
		p.unknowns++
		p.in.abort("inconclusive", "solver could not decide an assumption", p.in.where())
	}
}

// Assert asks the solver for pc ∧ ¬c.
func (p *PathCtx) Assert(c *Term, label string) {
	site := p.asserts[label]
	if site == nil {
		site = &AssertSite{Label: label}
		p.asserts[label] = site
	}
	if p.replaying() {
		// already decided when this prefix was first explored
		if c.op != OpConst {
			p.assertPC(c)
		} else if c.c == 0 {
			p.in.abort("assume", "past violated assertion", p.in.where())
		}
		return
	}
	site.Evaluated++
	if p.twin {
		// reachability twin: the assertion site itself must be reachable
		p.ensureModel()
		site.Violated++
		return
	}
	if c.op == OpConst {
		if c.c != 0 {
			return
		}
		p.ensureModel()
		site.Violated++
		p.report("assert", label, p.in.where(), "assertion is false on this path", nil)
		p.in.abort("assume", "violated assertion ends path", p.in.where())
	}
	site.NonTrivial++
	p.stats.AssertQueries++
	neg := p.tb.Not(c)
	var r Result
	if p.M != nil && p.M.Eval(neg) != 0 {
		r = Sat
	} else {
		r = p.checkWith(neg)
	}
	switch r {
	case Unsat:
		p.stats.AssertUnsat++
	case Sat:
		site.Violated++
		p.report("assert", label, p.in.where(), "", neg)
	default:
		// retry cascade on the other installed solvers
		r2, m2 := p.cascade(neg)
		switch r2 {
		case Unsat:
			p.stats.AssertUnsat++
			p.cascaded++
		case Sat:
			p.cascaded++
			site.Violated++
			p.M = nil
			_ = m2
			p.report("assert", label, p.in.where(), "", neg)
		default:
			p.unknowns++
			p.recordViolation("inconclusive", label, p.in.where(), "every solver returned unknown for an assertion", nil)
		}
	}
	// continue under c
	p.Assume(c)
}

// cascade re-submits pc ∧ extra to the other solvers (fresh processes).
func (p *PathCtx) cascade(extra *Term) (Result, Model) {
	for _, name := range []string{"z3-new", "cvc5"} {
		s, err := NewSolver(name, 6*p.cfg.QueryTimeoutMs)
		if err != nil {
			continue
		}
		for _, c := range p.pc {
			s.Assert(c)
		}
		m, r := s.ModelWith(extra, p.tb.vars)
		s.Close()
		if r != Unknown {
			return r, m
		}
	}
	return Unknown, nil
}

func (p *PathCtx) whereTerm(k KnownFinding) *Term {
	tb := p.tb
	acc := tb.Bool(true)
	for _, a := range k.Where {
		v, ok := tb.byVar[a.Var]
		if !ok {
			return tb.Bool(false)
		}
		c := tb.Const(v.sort, uint64(a.Val))
		if v.sort == SoBool || v.sort == SoFP64 {
			acc = tb.And(acc, tb.Eq(v, c))
			continue
		}
		lt, le := OpBvSlt, OpBvSle
		if a.Unsigned {
			lt, le = OpBvUlt, OpBvUle
		}
		var t *Term
		switch a.Op {
		case "==":
			t = tb.Eq(v, c)
		case "!=":
			t = tb.Not(tb.Eq(v, c))
		case "<":
			t = tb.Bin(lt, v, c)
		case "<=":
			t = tb.Bin(le, v, c)
		case ">":
			t = tb.Bin(lt, c, v)
		case ">=":
			t = tb.Bin(le, c, v)
		default:
			panic("known_findings.json: bad op " + a.Op)
		}
		acc = tb.And(acc, t)
	}
	return acc
}

// report records a violation of the current path (pc ∧ extra). Known
// findings are identified by harness, label, site and a predicate over the
// inputs; the solver is re-asked with every matching predicate negated, so a
// different violation at the same site is still reported.
func (p *PathCtx) report(kind, label, site, msg string, extra *Term) {
	tb := p.tb
	if extra == nil {
		extra = tb.Bool(true)
	}
	var matching []KnownFinding
	for _, k := range p.cfg.Known {
		if k.Harness != "" && k.Harness != shortName(p.cfg.Harness) {
			continue
		}
		if k.Label != label {
			continue
		}
		if k.Site != "" && !strings.Contains(site, k.Site) {
			continue
		}
		matching = append(matching, k)
	}
	model := func(t *Term) (Model, Result) {
		if t.op == OpConst && t.c != 0 && p.M != nil {
			return p.M, Sat
		}
		return p.modelWith(t)
	}
	if len(matching) == 0 {
		m, r := model(extra)
		if r == Sat {
			p.recordViolation(kind, label, site, msg, m)
		} else {
			p.recordViolation("inconclusive", label, site, msg, nil)
		}
		return
	}
	excl := extra
	for _, k := range matching {
		excl = tb.And(excl, tb.Not(p.whereTerm(k)))
	}
	if m, r := model(excl); r == Sat {
		p.recordViolation(kind, label, site, msg, m)
	} else if r == Unknown {
		p.recordViolation("inconclusive", label, site, msg, nil)
	}
	for _, k := range matching {
		if m, r := model(tb.And(extra, p.whereTerm(k))); r == Sat {
			p.recordViolation(kind, label, site, msg, m)
			v := p.viol[len(p.viol)-1]
			v.Known, v.What = k.ID, k.What
		}
	}
}

func (p *PathCtx) recordViolation(kind, label, site, msg string, m Model) {
	v := &Violation{Kind: kind, Label: label, Site: site, Msg: msg, Model: m, Trail: append([]Dec(nil), p.trail...)}
	if m != nil {
		v.Inputs = map[string]uint64{}
		for _, ni := range p.inputs {
			v.Inputs[ni.Name] = m.Eval(ni.T)
		}
	}
	if p.in != nil && p.in.cur != nil && p.in.cur.fr != nil {
		v.Stack = p.in.cur.fr.stack(12)
	}
	p.viol = append(p.viol, v)
}

func (p *PathCtx) forkSite() {
	if p.forks == nil {
		return
	}
	site := "?"
	if p.in != nil && p.in.cur != nil && p.in.cur.fr != nil {
		site = p.in.cur.fr.servitorSite()
	}
	p.forks[site]++
}

// freshName numbers repeated uses of an input name deterministically.
func (p *PathCtx) freshName(name string) string {
	k := p.nameCount[name]
	p.nameCount[name] = k + 1
	return fmt.Sprintf("%s#%d", name, k)
}

func (p *PathCtx) input(name string, sort Sort) *Term {
	n := p.freshName(name)
	t := p.tb.Var(sort, n)
	p.inputs = append(p.inputs, namedInput{n, t})
	return t
}

// ---- driver

type PathResult struct {
	Harness  string
	Outcome  Outcome
	Trail    []Dec
	Viol     []*Violation
	Stats    PathStats
	Steps    int64
	Unknowns int
	Witness  map[string]uint64 // model of the final path condition (inputs)
	Obs      []string          // observations under the witness
	Asserts  map[string]*AssertSite
	Reached  map[string]bool
	Funcs    []string
	Races    []string
	Switches int
	Threads  int
	Forks    map[string]int
	Touched  []string
}

type Explorer struct {
	P       *Program
	cfg     *RunConfig
	mu      sync.Mutex
	cond    *sync.Cond
	work    [][]Dec
	busy    int
	results []*PathResult
	stop    bool
	started time.Time
	solverStats SolverStats
	maxPaths int
	npaths   int
	truncated bool
	progress  bool
}

func (e *Explorer) run(harness string, workers int) {
	e.cond = sync.NewCond(&e.mu)
	e.started = time.Now()
	e.work = [][]Dec{nil}
	var wg sync.WaitGroup
	for w := 0; w < workers; w++ {
		wg.Add(1)
		go func(w int) {
			defer wg.Done()
			s, err := NewSolver(e.cfg.Solver, e.cfg.QueryTimeoutMs)
			if err != nil {
				panic(err)
			}
			defer func() {
				e.mu.Lock()
				e.solverStats.Queries += s.Stats.Queries
				e.solverStats.SatN += s.Stats.SatN
				e.solverStats.UnsatN += s.Stats.UnsatN
				e.solverStats.UnknownN += s.Stats.UnknownN
				e.solverStats.Errors += s.Stats.Errors
				e.solverStats.Time += s.Stats.Time
				e.mu.Unlock()
				s.Close()
			}()
			for {
				e.mu.Lock()
				for len(e.work) == 0 && e.busy > 0 && !e.stop {
					e.cond.Wait()
				}
				if e.stop || (len(e.work) == 0 && e.busy == 0) {
					e.mu.Unlock()
					e.cond.Broadcast()
					return
				}
				prefix := e.work[len(e.work)-1]
				e.work = e.work[:len(e.work)-1]
				e.busy++
				e.npaths++
				e.mu.Unlock()

				res, alts := runPath(e.P, e.cfg, s, harness, prefix)

				e.mu.Lock()
				e.busy--
				e.results = append(e.results, res)
				if e.progress && len(e.results)%2000 == 0 {
					fmt.Fprintf(os.Stderr, "  .. %d paths, %d queued, %.0fs\n", len(e.results), len(e.work), time.Since(e.started).Seconds())
				}
				// push alternatives so that the deepest is explored first
				for i := 0; i < len(alts); i++ {
					e.work = append(e.work, alts[i])
				}
				if e.maxPaths > 0 && e.npaths >= e.maxPaths && len(e.work) > 0 {
					e.truncated = true
					e.stop = true
				}
				if e.cfg.Deadline != (time.Time{}) && time.Now().After(e.cfg.Deadline) && len(e.work) > 0 {
					e.truncated = true
					e.stop = true
				}
				e.mu.Unlock()
				e.cond.Broadcast()
			}
		}(w)
	}
	wg.Wait()
}

// runPath executes one path of the harness.
func runPath(P *Program, cfg *RunConfig, s *Solver, harness string, prefix []Dec) (res *PathResult, alts [][]Dec) {
	tb := NewTermBank()
	p := &PathCtx{tb: tb, solver: s, prefix: prefix, asserts: map[string]*AssertSite{}, reached: map[string]bool{}, cfg: cfg, nameCount: map[string]int{}, decided: map[*Term]bool{}, twin: cfg.Twin, M: Model{}}
	if cfg.ProfileForks {
		p.forks = map[string]int{}
	}
	in := &Interp{P: P, ex: p, tb: tb, globals: map[*ssa.Global]Ptr{}, budget: cfg.StepBudget,
		sliceData: map[Ptr][]Value{}, objTags: map[any]string{}, funcsSeen: map[*ssa.Function]bool{},
		nativeCache: map[string]any{}, initRunning: map[string]bool{}}
	in.sched = &schedState{mutexes: map[Ptr]*mutexState{}, wgs: map[Ptr]*wgState{}, onces: map[Ptr]bool{}, explore: cfg.ScheduleMode, maxPreempt: -1}
	if v, ok := cfg.Params["preemptions"]; ok {
		in.sched.maxPreempt = v
	}
	if cfg.RaceMonitor {
		in.sched.monitor = &monitor{last: map[Ptr][]accessRec{}}
	}
	p.in = in
	main := in.newThread()
	main.vc[0] = 1
	in.cur = main
	res = &PathResult{Harness: harness}
	func() {
		defer func() {
			r := recover()
			if r == nil {
				return
			}
			switch r := r.(type) {
			case abortSignal:
			case *targetPanic:
				if in.outcome == nil {
					in.outcome = &Outcome{Kind: "panic", Msg: r.msg, Site: r.site}
				}
			default:
				if in.outcome == nil {
					in.outcome = &Outcome{Kind: "engine", Msg: fmt.Sprintf("%v\n%s", r, in.where())}
				}
			}
		}()
		in.runHarness(harness)
	}()
	in.killThreads()
	if in.outcome == nil {
		in.outcome = &Outcome{Kind: "completed"}
	}
	res.Outcome = *in.outcome
	if p.pos < len(p.prefix) && (res.Outcome.Kind == "completed" || res.Outcome.Kind == "panic") {
		res.Outcome = Outcome{Kind: "engine", Msg: fmt.Sprintf("replay divergence: path ended with %d unread decisions", len(p.prefix)-p.pos)}
	}
	// crashes and deadlocks are violations of the implicit "no panic" assertion
	if !p.twin {
		if res.Outcome.Kind == "budget" && cfg.HangIsViolation {
			res.Outcome.Kind = "hang"
		}
		switch res.Outcome.Kind {
		case "panic", "deadlock", "hang":
			func() {
				defer func() { recover() }()
				in.aborting = false
				p.ensureModel()
			}()
			if p.M != nil {
				func() {
					defer func() { recover() }()
					p.report(res.Outcome.Kind, "no-"+res.Outcome.Kind, res.Outcome.Site, res.Outcome.Msg, nil)
				}()
			} else {
				p.recordViolation("inconclusive", "no-"+res.Outcome.Kind, res.Outcome.Site, res.Outcome.Msg, nil)
			}
		}
		if in.sched.monitor != nil && len(in.sched.monitor.races) > 0 {
			func() {
				defer func() { recover() }()
				in.aborting = false
				p.ensureModel()
			}()
			res.Races = in.sched.monitor.races
			p.recordViolation("race", "no-race", "", in.sched.monitor.races[0], p.M)
		}
	}
	if res.Outcome.Kind == "completed" || res.Outcome.Kind == "panic" {
		func() {
			defer func() { recover() }()
			in.aborting = false
			p.ensureModel()
		}()
		if p.M != nil {
			res.Witness = map[string]uint64{}
			for _, ni := range p.inputs {
				res.Witness[ni.Name] = p.M.Eval(ni.T)
			}
			for _, o := range in.observations {
				res.Obs = append(res.Obs, o.Name+"="+obsFormat(o.Val, p.M))
			}
		}
	}
	for _, v := range p.viol {
		v.Harness = harness
	}
	res.Forks = p.forks
	res.Trail = p.trail
	res.Viol = p.viol
	res.Stats = p.stats
	res.Steps = in.steps
	res.Unknowns = p.unknowns
	res.Asserts = p.asserts
	res.Reached = p.reached
	res.Switches = in.sched.switches
	res.Threads = len(in.threads)
	for fn := range in.funcsSeen {
		res.Funcs = append(res.Funcs, fn.String())
	}
	sort.Strings(res.Funcs)
	for k := range in.touched {
		res.Touched = append(res.Touched, k)
	}
	return res, p.alts
}
