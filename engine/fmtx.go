package main

// A mini-formatter for the verbs servitor and the interpreted library code
// use (%s %v %w %d %q %T %x %c %%). Errorf builds the real *fmt.wrapError /
// *fmt.wrapErrors / *errors.errorString objects so that errors.Is/Unwrap run
// on real code.

import (
	"fmt"
	"go/types"
	"strconv"
	"strings"

	"golang.org/x/tools/go/ssa"
)

func (in *Interp) lookupNamed(pkgPath, name string) types.Type {
	pkg := in.P.prog.ImportedPackage(pkgPath)
	if pkg == nil {
		in.unsupported("package " + pkgPath + " not loaded")
	}
	obj := pkg.Pkg.Scope().Lookup(name)
	if obj == nil {
		in.unsupported("type " + pkgPath + "." + name + " not found")
	}
	return obj.Type()
}

func typeString(t types.Type) string {
	return types.TypeString(t, func(p *types.Package) string { return p.Name() })
}

// formatOperand renders one operand for %v / %s.
func (in *Interp) formatOperand(fr *frame, verb byte, arg Value) Str {
	f := in.resolveIface(fr, arg)
	if f.T == nil {
		if verb == 'v' {
			return Str{S: "<nil>"}
		}
		return Str{S: "%!" + string(verb) + "(<nil>)"}
	}
	if n, ok := f.V.(Native); ok {
		if e, isErr := n.X.(error); isErr {
			return in.quoteIf(verb, Str{S: e.Error()})
		}
	}
	// error / Stringer take precedence for %v %s %q
	if verb == 'v' || verb == 's' || verb == 'q' {
		if sig := in.methodSig(f.T, "Error"); sig != nil && sig.Params().Len() == 0 && sig.Results().Len() == 1 && isStringType(sig.Results().At(0).Type()) {
			if p, ok := f.V.(Ptr); ok && p == nil {
				return Str{S: "<nil>"}
			}
			r, _ := in.callMethod(fr, f, "Error")
			return in.quoteIf(verb, r.(Str))
		}
		if sig := in.methodSig(f.T, "String"); sig != nil && sig.Params().Len() == 0 && sig.Results().Len() == 1 && isStringType(sig.Results().At(0).Type()) {
			if p, ok := f.V.(Ptr); ok && p == nil {
				return Str{S: "<nil>"}
			}
			r, _ := in.callMethod(fr, f, "String")
			return in.quoteIf(verb, r.(Str))
		}
	}
	switch v := f.V.(type) {
	case Str:
		return in.quoteIf(verb, v)
	case SInt:
		_, signed, _ := intWidth(f.T)
		if verb == 'q' || verb == 'c' {
			s := in.runeToStr(v, f.T)
			if verb == 'c' {
				return s
			}
			if s.IsConcrete() {
				return Str{S: strconv.QuoteRune([]rune(s.S)[0])}
			}
			return concatStr(concatStr(Str{S: "'"}, s), Str{S: "'"})
		}
		if v.T != nil {
			return in.symDecimal(fr, v, signed)
		}
		base := 10
		if verb == 'x' {
			base = 16
		}
		if signed {
			return Str{S: strconv.FormatInt(v.Signed(), base)}
		}
		return Str{S: strconv.FormatUint(v.V, base)}
	case SBool:
		if v.T != nil {
			if in.truth(v) {
				return Str{S: "true"}
			}
			return Str{S: "false"}
		}
		return Str{S: strconv.FormatBool(v.V)}
	case SFloat:
		if v.T != nil {
			in.unsupported("formatting a symbolic float")
		}
		return Str{S: strconv.FormatFloat(v.V, 'g', -1, 64)}
	case Slice:
		out := Str{S: "["}
		for i := 0; i < v.L; i++ {
			if i > 0 {
				out = concatStr(out, Str{S: " "})
			}
			et := f.T.Underlying().(*types.Slice).Elem()
			out = concatStr(out, in.formatOperand(fr, verb, in.asIface(et, v.B[i])))
		}
		return concatStr(out, Str{S: "]"})
	case *Map:
		return Str{S: "map[...]"}
	case Ptr:
		return Str{S: "0xc000000000"}
	}
	return Str{S: fmt.Sprintf("%%!%c(%s)", verb, typeString(f.T))}
}

func (in *Interp) asIface(t types.Type, v Value) Value {
	if _, ok := t.Underlying().(*types.Interface); ok {
		return v
	}
	return Iface{T: t, V: v}
}

func (in *Interp) quoteIf(verb byte, s Str) Str {
	if verb != 'q' {
		return s
	}
	if s.IsConcrete() {
		return Str{S: strconv.Quote(s.S)}
	}
	return in.symQuote(s)
}

// symQuote is strconv.Quote for strings with symbolic bytes, exact for
// ASCII; a symbolic byte >= 0x80 is outside what it models.
func (in *Interp) symQuote(s Str) Str {
	tb := in.tb
	out := Str{S: `"`}
	c8 := func(v uint64) *Term { return tb.Const(SoBV8, v) }
	const hex = "0123456789abcdef"
	for i := 0; i < len(s.S); i++ {
		b := strByte(s, i)
		if b.T == nil {
			if b.V >= 0x80 {
				// concrete non-ASCII: quote the maximal concrete run natively
				j := i
				for j < len(s.S) && (s.Sym == nil || s.Sym[j] == nil) {
					j++
				}
				q := strconv.Quote(s.S[i:j])
				out = concatStr(out, Str{S: q[1 : len(q)-1]})
				i = j - 1
				continue
			}
			q := strconv.Quote(string(rune(b.V)))
			out = concatStr(out, Str{S: q[1 : len(q)-1]})
			continue
		}
		t := b.T
		if in.ex.Branch(tb.Bin(OpBvUle, c8(0x80), t)) {
			in.unsupported("%q / strconv.Quote of a symbolic non-ASCII byte")
		}
		if in.ex.Branch(tb.Or(tb.Eq(t, c8('"')), tb.Eq(t, c8('\\')))) {
			out = concatStr(out, Str{S: "\\"})
			out = concatStr(out, Str{S: "?", Sym: []*Term{t}})
			continue
		}
		if in.ex.Branch(tb.And(tb.Bin(OpBvUle, c8(0x20), t), tb.Bin(OpBvUle, t, c8(0x7e)))) {
			out = concatStr(out, Str{S: "?", Sym: []*Term{t}})
			continue
		}
		// control characters: named escapes or \xNN
		named := false
		for _, e := range []struct {
			c byte
			s string
		}{{'\a', `\a`}, {'\b', `\b`}, {'\f', `\f`}, {'\n', `\n`}, {'\r', `\r`}, {'\t', `\t`}, {'\v', `\v`}} {
			if in.ex.Branch(tb.Eq(t, c8(uint64(e.c)))) {
				out = concatStr(out, Str{S: e.s})
				named = true
				break
			}
		}
		if named {
			continue
		}
		v := byte(in.ex.Concretize(t))
		out = concatStr(out, Str{S: `\x` + string(hex[v>>4]) + string(hex[v&0xf])})
	}
	return concatStr(out, Str{S: `"`})
}

// symDecimal renders a symbolic integer: the value is concretised (harnesses
// keep such integers in small ranges).
func (in *Interp) symDecimal(fr *frame, v SInt, signed bool) Str {
	return in.symItoa(v, signed)
}

type fmtResult struct {
	s       Str
	wrapped []Value // operands of %w
}

func (in *Interp) format(fr *frame, format Str, args []Value) fmtResult {
	if !format.IsConcrete() {
		in.unsupported("symbolic format string")
	}
	f := format.S
	var res fmtResult
	argi := 0
	var lit strings.Builder
	flush := func() {
		if lit.Len() > 0 {
			res.s = concatStr(res.s, Str{S: lit.String()})
			lit.Reset()
		}
	}
	for i := 0; i < len(f); i++ {
		c := f[i]
		if c != '%' {
			lit.WriteByte(c)
			continue
		}
		i++
		if i >= len(f) {
			lit.WriteString("%!(NOVERB)")
			break
		}
		verb := f[i]
		if verb == '%' {
			lit.WriteByte('%')
			continue
		}
		if !strings.ContainsRune("svwdqTxc", rune(verb)) {
			in.unsupported("format verb %" + string(verb))
		}
		if argi >= len(args) {
			lit.WriteString("%!" + string(verb) + "(MISSING)")
			continue
		}
		arg := args[argi]
		argi++
		flush()
		switch verb {
		case 'T':
			itf := in.resolveIface(fr, arg)
			if itf.T == nil {
				res.s = concatStr(res.s, Str{S: "<nil>"})
			} else {
				res.s = concatStr(res.s, Str{S: typeString(itf.T)})
			}
		case 'w':
			res.wrapped = append(res.wrapped, arg)
			res.s = concatStr(res.s, in.formatOperand(fr, 'v', arg))
		default:
			res.s = concatStr(res.s, in.formatOperand(fr, verb, arg))
		}
	}
	flush()
	if argi < len(args) {
		res.s = concatStr(res.s, Str{S: "%!(EXTRA ...)"})
	}
	return res
}

func variadicArgs(v Value) []Value {
	s := v.(Slice)
	return s.B[:s.L]
}

func fmtSprintf(in *Interp, fr *frame, fn *ssa.Function, a []Value) (Value, bool) {
	return in.format(fr, a[0].(Str), variadicArgs(a[1])).s, true
}

func fmtSprint(in *Interp, fr *frame, fn *ssa.Function, a []Value) (Value, bool) {
	out := Str{}
	args := variadicArgs(a[0])
	prevString := true
	for i, x := range args {
		itf := in.resolveIface(fr, x)
		_, isStr := itf.V.(Str)
		if i > 0 && !isStr && !prevString {
			out = concatStr(out, Str{S: " "})
		}
		out = concatStr(out, in.formatOperand(fr, 'v', x))
		prevString = isStr
	}
	return out, true
}

func fmtErrorf(in *Interp, fr *frame, fn *ssa.Function, a []Value) (Value, bool) {
	r := in.format(fr, a[0].(Str), variadicArgs(a[1]))
	// only operands that are errors count as wrapped
	var errs []Value
	for _, w := range r.wrapped {
		itf := in.resolveIface(fr, w)
		if n, ok := itf.V.(Native); ok {
			if _, isErr := n.X.(error); isErr {
				errs = append(errs, itf)
				continue
			}
		}
		if itf.T != nil && in.methodSig(itf.T, "Error") != nil {
			errs = append(errs, itf)
		}
	}
	switch len(errs) {
	case 0:
		t := in.lookupNamed("errors", "errorString")
		p := new(Value)
		*p = Struct{r.s}
		return Iface{T: types.NewPointer(t), V: Ptr(p)}, true
	case 1:
		t := in.lookupNamed("fmt", "wrapError")
		p := new(Value)
		*p = Struct{r.s, errs[0]}
		return Iface{T: types.NewPointer(t), V: Ptr(p)}, true
	}
	t := in.lookupNamed("fmt", "wrapErrors")
	p := new(Value)
	b := make([]Value, len(errs))
	copy(b, errs)
	*p = Struct{r.s, Slice{B: b, L: len(b)}}
	return Iface{T: types.NewPointer(t), V: Ptr(p)}, true
}

// symItoa renders a symbolic integer in decimal without enumerating its
// values: the path forks on sign and digit count only; each digit is the
// term (x / 10^i) % 10 + '0'.
func (in *Interp) symItoa(v SInt, signed bool) Str {
	tb := in.tb
	x := tb.Resize(v.T, 64, signed)
	out := Str{}
	if signed && in.ex.Branch(tb.Bin(OpBvSlt, x, tb.Const(SoBV64, 0))) {
		out = Str{S: "-"}
		x = tb.BvNeg(x)
	}
	pow := uint64(10)
	nd := 1
	for ; nd < 20; nd++ {
		if in.ex.Branch(tb.Bin(OpBvUlt, x, tb.Const(SoBV64, pow))) {
			break
		}
		pow *= 10
	}
	sym := make([]*Term, nd)
	div := uint64(1)
	for i := nd - 1; i >= 0; i-- {
		q := x
		if div != 1 {
			q = tb.Bin(OpBvUDiv, x, tb.Const(SoBV64, div))
		}
		d := tb.Bin(OpBvURem, q, tb.Const(SoBV64, 10))
		sym[i] = tb.Bin(OpBvAdd, tb.Resize(d, 8, false), tb.Const(SoBV8, '0'))
		div *= 10
	}
	return concatStr(out, Str{S: string(make([]byte, nd)), Sym: sym}.norm())
}
