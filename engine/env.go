package main

// Environment functions: native fast path for pure library calls on concrete
// arguments, the stub clock, and harness parameters.

import (
	"bytes"
	"encoding/json"
	"io"
	"fmt"
	"reflect"
	"unsafe"
	nethtml "golang.org/x/net/html"
	"go/types"
	"github.com/yuin/goldmark"
	"github.com/yuin/goldmark/extension"
	"html"
	"net"
	"net/url"
	"strconv"
	"strings"
	"time"
	"unicode"
	"unicode/utf8"

	"golang.org/x/tools/go/ssa"
)

// LazyJSON is reserved for lazily-typed interface values (unused so far).
type LazyJSON struct{}

var lazyType types.Type = types.NewNamed(types.NewTypeName(0, nil, "lazyJSON", nil), types.NewStruct(nil, nil), nil)

func (in *Interp) resolveLazy(fr *frame, lz *LazyJSON) Iface { return Iface{} }

func vrJSON(in *Interp, fr *frame, fn *ssa.Function, a []Value) (Value, bool) { return nil, false }

// nativeFuncs: called natively when every argument is concrete. These are
// library functions (environment), compiled by the same toolchain that
// builds /repo.
var nativeFuncs = map[string]any{
	"strings.Repeat":       strings.Repeat,
	"strings.Split":        strings.Split,
	"strings.SplitN":       strings.SplitN,
	"strings.Join":         strings.Join,
	"strings.Contains":     strings.Contains,
	"strings.ContainsRune": strings.ContainsRune,
	"strings.ContainsAny":  strings.ContainsAny,
	"strings.HasPrefix":    strings.HasPrefix,
	"strings.HasSuffix":    strings.HasSuffix,
	"strings.LastIndex":    strings.LastIndex,
	"strings.LastIndexByte": strings.LastIndexByte,
	"strings.IndexAny":     strings.IndexAny,
	"strings.IndexRune":    strings.IndexRune,
	"strings.ReplaceAll":   strings.ReplaceAll,
	"strings.Replace":      strings.Replace,
	"strings.ToLower":      strings.ToLower,
	"strings.ToUpper":      strings.ToUpper,
	"strings.Trim":         strings.Trim,
	"strings.TrimLeft":     strings.TrimLeft,
	"strings.TrimRight":    strings.TrimRight,
	"strings.TrimSpace":    strings.TrimSpace,
	"strings.TrimPrefix":   strings.TrimPrefix,
	"strings.TrimSuffix":   strings.TrimSuffix,
	"strings.EqualFold":    strings.EqualFold,
	"strings.Fields":       strings.Fields,
	"strings.Cut":          strings.Cut,
	"strconv.Itoa":         strconv.Itoa,
	"strconv.Atoi":         strconv.Atoi,
	"strconv.ParseUint":    strconv.ParseUint,
	"strconv.ParseInt":     strconv.ParseInt,
	"strconv.FormatInt":    strconv.FormatInt,
	"strconv.FormatUint":   strconv.FormatUint,
	"strconv.Quote":        strconv.Quote,
	"strconv.QuoteRune":    strconv.QuoteRune,
	"unicode.IsPrint":      unicode.IsPrint,
	"unicode.IsGraphic":    unicode.IsGraphic,
	"unicode.IsPunct":      unicode.IsPunct,
	"unicode.ToUpper":      unicode.ToUpper,
	"unicode.SimpleFold":   unicode.SimpleFold,
	"unicode/utf8.ValidString":        utf8.ValidString,
	"unicode/utf8.RuneCountInString":  utf8.RuneCountInString,
	"unicode/utf8.RuneLen":            utf8.RuneLen,
	"unicode/utf8.ValidRune":          utf8.ValidRune,
	"net/url.Parse":                   url.Parse,
	"net/url.PathEscape":              url.PathEscape,
	"net/url.QueryEscape":             url.QueryEscape,
	"net/url.PathUnescape":            url.PathUnescape,
	"net/url.QueryUnescape":           url.QueryUnescape,
	"(*net/url.URL).String":           (*url.URL).String,
	"(*net/url.URL).Hostname":         (*url.URL).Hostname,
	"(*net/url.URL).Port":             (*url.URL).Port,
	"(*net/url.URL).RequestURI":       (*url.URL).RequestURI,
	"(*net/url.URL).ResolveReference": (*url.URL).ResolveReference,
	"(*net/url.URL).EscapedPath":      (*url.URL).EscapedPath,
	"(*net/url.URL).IsAbs":            (*url.URL).IsAbs,
	"(net/url.Values).Encode":         url.Values.Encode,
	"net.JoinHostPort":                net.JoinHostPort,
	"html.EscapeString":               html.EscapeString,
	"html.UnescapeString":             html.UnescapeString,
	"time.Parse":                      time.Parse,
	"(time.Time).Format":              time.Time.Format,
	"(time.Time).UTC":                 time.Time.UTC,
	"(time.Time).After":               time.Time.After,
	"(time.Time).Before":              time.Time.Before,
	"(time.Time).Equal":               time.Time.Equal,
	"(time.Time).IsZero":              time.Time.IsZero,
	"(time.Time).Unix":                time.Time.Unix,
	"(time.Time).Sub":                 time.Time.Sub,
	"(time.Time).Add":                 time.Time.Add,
	"(time.Duration).Hours":           time.Duration.Hours,
	"(time.Duration).Minutes":         time.Duration.Minutes,
	"(time.Duration).Seconds":         time.Duration.Seconds,
	"(time.Duration).String":          time.Duration.String,
	"time.Unix":                       time.Unix,
}

// fixedNow is the stub clock's "now" when no harness clock is installed.
var fixedNow = time.Date(2026, 1, 1, 0, 0, 0, 0, time.UTC)

func registerEnvIntrinsics() {
	registerGoldmark()
	registerHTML()
	registerJSON()
	intrinsics["time.Now"] = func(in *Interp, fr *frame, fn *ssa.Function, a []Value) (Value, bool) {
		return in.callNative(fr, func() time.Time { return fixedNow }, fn.Signature, a)
	}
	intrinsics["time.Since"] = func(in *Interp, fr *frame, fn *ssa.Function, a []Value) (Value, bool) {
		r, ok := in.callNative(fr, func(t time.Time) time.Duration { return fixedNow.Sub(t) }, fn.Signature, a)
		if !ok {
			in.unsupported("time.Since of a symbolic time")
		}
		return r, true
	}
	// Strings: a list computed by the engine before the harness runs (a
	// discovery pass over the current source) and recorded in every model
	intrinsics["servitor/verifrt.Strings"] = func(in *Interp, fr *frame, fn *ssa.Function, a []Value) (Value, bool) {
		l := in.ex.cfg.Lists[argStr(a[0])]
		b := make([]Value, len(l))
		for i, s := range l {
			b[i] = Str{S: s}
		}
		return Slice{B: b, L: len(b)}, true
	}
	// TraceKeys: from now on, lookups by key in this map and the maps nested
	// in it are recorded (engine only)
	intrinsics["servitor/verifrt.TraceKeys"] = func(in *Interp, fr *frame, fn *ssa.Function, a []Value) (Value, bool) {
		var mark func(v Value, depth int)
		mark = func(v Value, depth int) {
			if depth > 6 {
				return
			}
			switch v := v.(type) {
			case *Map:
				if v == nil || v.traced {
					return
				}
				v.traced = true
				for _, e := range v.order {
					if e != nil {
						mark(e.v, depth+1)
					}
				}
			case Iface:
				mark(v.V, depth+1)
			case Slice:
				for i := 0; i < v.L && i < len(v.B); i++ {
					mark(v.B[i], depth+1)
				}
			}
		}
		mark(a[0], 0)
		return nil, true
	}
	// Reinit: run a package's own initialisers again (package-level variables
	// and init functions, from the real SSA) - "the process starts with the
	// configuration that is in force now". Natively the harness re-executes
	// the test binary instead (verifrt.RunChild).
	intrinsics["servitor/verifrt.Reinit"] = func(in *Interp, fr *frame, fn *ssa.Function, a []Value) (Value, bool) {
		pkg := in.P.prog.ImportedPackage(argStr(a[0]))
		if pkg == nil {
			in.unsupported("Reinit of unknown package " + argStr(a[0]))
		}
		*in.global(pkg.Var("init$guard")) = SBool{V: false}
		in.runInit(fr, pkg)
		return nil, true
	}
	intrinsics["servitor/verifrt.RegisterChild"] = func(in *Interp, fr *frame, fn *ssa.Function, a []Value) (Value, bool) {
		return nil, true
	}
	intrinsics["servitor/verifrt.RunChild"] = func(in *Interp, fr *frame, fn *ssa.Function, a []Value) (Value, bool) {
		in.unsupported("verifrt.RunChild under the engine (use verifrt.Symbolic to choose Reinit)")
		return nil, true
	}
	intrinsics["servitor/verifrt.Param"] = func(in *Interp, fr *frame, fn *ssa.Function, a []Value) (Value, bool) {
		name := argStr(a[0])
		if v, ok := in.ex.cfg.Params[name]; ok {
			return mkInt64(int64(v)), true
		}
		return a[1], true
	}
}

// ---- goldmark (native; servitor/markdown only calls New and Convert)

func registerGoldmark() {
	intrinsics["github.com/yuin/goldmark.WithExtensions"] = func(in *Interp, fr *frame, fn *ssa.Function, a []Value) (Value, bool) {
		return Native{"goldmark-option"}, true
	}
	intrinsics["github.com/yuin/goldmark.New"] = func(in *Interp, fr *frame, fn *ssa.Function, a []Value) (Value, bool) {
		md := goldmark.New(goldmark.WithExtensions(extension.GFM))
		return Iface{T: nativeOpaqueType, V: Native{md}}, true
	}
}

// invokeNative dispatches an interface method call whose receiver is a
// native object.
func (in *Interp) invokeNative(fr *frame, recv Native, method string, args []Value) Value {
	switch x := recv.X.(type) {
	case error:
		if method == "Error" {
			return Str{S: x.Error()}
		}
	case goldmark.Markdown:
		if method == "Convert" {
			src := args[0].(Slice)
			s := in.bytesToStr(src.B[:src.L])
			if !s.IsConcrete() {
				in.unsupported("Markdown source with symbolic bytes (goldmark runs natively on concrete text)")
			}
			var buf bytes.Buffer
			err := x.Convert([]byte(s.S), &buf)
			if err != nil {
				in.unsupported("goldmark.Convert returned an error: " + err.Error())
			}
			// write into the interpreted *bytes.Buffer (field 0 = buf []byte)
			w := in.resolveIface(fr, args[1])
			p := w.V.(Ptr)
			out := strToValues(Str{S: buf.String()})
			(*p).(Struct)[0] = Slice{B: out, L: len(out)}
			return Iface{}
		}
	}
	in.unsupported(fmt.Sprintf("method %s on native %T", method, recv.X))
	return nil
}

// ---- x/net/html (native on concrete input)

func registerHTML() {
	intrinsics["golang.org/x/net/html.ParseFragment"] = func(in *Interp, fr *frame, fn *ssa.Function, a []Value) (Value, bool) {
		rd := in.resolveIface(fr, a[0])
		p, ok := rd.V.(Ptr)
		if !ok || p == nil || !strings.HasSuffix(rd.T.String(), "strings.Reader") {
			in.unsupported("html.ParseFragment from a reader other than *strings.Reader")
		}
		src := (*p).(Struct)[0].(Str)
		if !src.IsConcrete() {
			in.unsupported("html.ParseFragment of text with symbolic bytes (the parser runs natively on concrete text; symbolic text uses harness-built trees)")
		}
		uc := &unmarshalCtx{in: in, memo: map[Ptr]reflect.Value{}}
		ctxNode, ok := uc.toNative(a[1], reflect.TypeOf((*nethtml.Node)(nil)))
		if !ok {
			in.unsupported("html.ParseFragment context node not concrete")
		}
		nodes, err := nethtml.ParseFragment(strings.NewReader(src.S), ctxNode.Interface().(*nethtml.Node))
		if err != nil {
			in.unsupported("html.ParseFragment returned an error: " + err.Error())
		}
		mc := &marshalCtx{in: in, memo: map[unsafe.Pointer]Ptr{}}
		res := fn.Signature.Results()
		return Tuple{mc.fromNative(reflect.ValueOf(nodes), res.At(0).Type()), Iface{}}, true
	}
}

// ---- encoding/json (native decoder pulling bytes from the interpreted reader)

type jsonDec struct {
	rd  Iface
	dec *json.Decoder
}

type interpReader struct {
	in  *Interp
	fr  *frame
	rd  Iface
	err *interpErr
}

type interpErr struct{ v Iface }

func (e *interpErr) Error() string { return "error of the interpreted reader" }

func (r *interpReader) Read(p []byte) (int, error) {
	in := r.in
	buf := make([]Value, len(p))
	for i := range buf {
		buf[i] = SInt{W: 8}
	}
	res, ok := in.callMethod(r.fr, r.rd, "Read", Slice{B: buf, L: len(buf)})
	if !ok {
		in.unsupported("reader without Read method")
	}
	tu := res.(Tuple)
	n := int(tu[0].(SInt).Signed())
	for i := 0; i < n; i++ {
		b := buf[i].(SInt)
		if b.T != nil {
			in.unsupported("JSON body with symbolic bytes (encoding/json runs natively on concrete bodies)")
		}
		p[i] = byte(b.V)
	}
	e := in.resolveIface(r.fr, tu[1])
	if e.T == nil {
		return n, nil
	}
	if in.isGlobalValue("io", "EOF", e) {
		return n, io.EOF
	}
	r.err = &interpErr{e}
	return n, r.err
}

func (in *Interp) isGlobalValue(pkg, name string, v Iface) bool {
	p := in.P.prog.ImportedPackage(pkg)
	if p == nil {
		return false
	}
	g := p.Var(name)
	if g == nil {
		return false
	}
	cur, ok := (*in.global(g)).(Iface)
	if !ok || cur.T == nil || v.T == nil {
		return false
	}
	a, ok1 := cur.V.(Ptr)
	b, ok2 := v.V.(Ptr)
	return ok1 && ok2 && a == b
}

func (in *Interp) globalIface(pkg, name string) Value {
	p := in.P.prog.ImportedPackage(pkg)
	return *in.global(p.Var(name))
}

func registerJSON() {
	intrinsics["encoding/json.NewDecoder"] = func(in *Interp, fr *frame, fn *ssa.Function, a []Value) (Value, bool) {
		return Native{&jsonDec{rd: in.resolveIface(fr, a[0])}}, true
	}
	intrinsics["(*encoding/json.Decoder).Decode"] = func(in *Interp, fr *frame, fn *ssa.Function, a []Value) (Value, bool) {
		jd := a[0].(Native).X.(*jsonDec)
		ir := &interpReader{in: in, fr: fr, rd: jd.rd}
		if jd.dec == nil {
			jd.dec = json.NewDecoder(ir)
		}
		target := in.resolveIface(fr, a[1])
		ptr, ok := target.V.(Ptr)
		pt, isPtr := target.T.Underlying().(*types.Pointer)
		if !ok || !isPtr || ptr == nil {
			in.unsupported("json Decode into a non-pointer")
		}
		rt := reflectTypeOf(pt.Elem())
		if rt == nil {
			if n, isNamed := pt.Elem().(*types.Named); isNamed {
				rt = reflectTypeOf(n.Underlying())
			}
		}
		if rt == nil {
			in.unsupported("json Decode into " + pt.Elem().String())
		}
		nv := reflect.New(rt)
		err := jd.dec.Decode(nv.Interface())
		if err != nil {
			switch {
			case ir.err != nil && err == error(ir.err):
				return ir.err.v, true
			case err == io.EOF:
				return in.globalIface("io", "EOF"), true
			case err == io.ErrUnexpectedEOF:
				return in.globalIface("io", "ErrUnexpectedEOF"), true
			}
			// other decoder errors stay native (their Error methods use reflection)
			return Iface{T: nativeOpaqueType, V: Native{err}}, true
		}
		mc := &marshalCtx{in: in, memo: map[unsafe.Pointer]Ptr{}}
		*ptr = mc.fromNative(nv.Elem(), pt.Elem())
		return Iface{}, true
	}
}
