package main

// One long-lived SMT solver process per worker, spoken to in SMT-LIB2 text.
// No set-logic (z3 4.8.12 silently drops what a restrictive logic cannot
// parse); any "(error" line or "unknown" makes the query inconclusive.

import (
	"bufio"
	"fmt"
	"io"
	"os/exec"
	"strconv"
	"strings"
	"time"
)

type Result int

const (
	Unsat Result = iota
	Sat
	Unknown
)

func (r Result) String() string { return [...]string{"unsat", "sat", "unknown"}[r] }

type SolverStats struct {
	Queries, SatN, UnsatN, UnknownN, Errors int
	Time                                  time.Duration
}

type Solver struct {
	name    string
	cmd     *exec.Cmd
	in      io.WriteCloser
	out     *bufio.Reader
	defined map[int]bool
	declared map[string]bool
	Stats   SolverStats
	timeoutMs int
	log     io.Writer
	dead    bool
}

func solverArgv(name string, timeoutMs int) []string {
	switch name {
	case "z3":
		return []string{"z3", "-in", fmt.Sprintf("-t:%d", timeoutMs)}
	case "z3-new":
		return []string{"z3-new", "-in", fmt.Sprintf("-t:%d", timeoutMs)}
	case "cvc5":
		return []string{"cvc5", "--incremental", "--lang=smt2", fmt.Sprintf("--tlimit-per=%d", timeoutMs), "--produce-models"}
	}
	panic("unknown solver " + name)
}

func NewSolver(name string, timeoutMs int) (*Solver, error) {
	argv := solverArgv(name, timeoutMs)
	cmd := exec.Command(argv[0], argv[1:]...)
	in, err := cmd.StdinPipe()
	if err != nil {
		return nil, err
	}
	outp, err := cmd.StdoutPipe()
	if err != nil {
		return nil, err
	}
	cmd.Stderr = cmd.Stdout
	if err := cmd.Start(); err != nil {
		return nil, err
	}
	s := &Solver{name: name, cmd: cmd, in: in, out: bufio.NewReaderSize(outp, 1<<16), timeoutMs: timeoutMs}
	s.preamble()
	return s, nil
}

func (s *Solver) preamble() {
	s.send("(set-option :print-success false)")
	s.send("(set-option :produce-models true)")
	if s.name == "cvc5" {
		s.send("(set-logic ALL)")
	}
	s.defined = map[int]bool{}
	s.declared = map[string]bool{}
}

func (s *Solver) send(line string) {
	if s.log != nil {
		fmt.Fprintln(s.log, line)
	}
	if _, err := io.WriteString(s.in, line+"\n"); err != nil {
		s.dead = true
	}
}

func (s *Solver) Close() {
	s.in.Close()
	done := make(chan struct{})
	go func() { s.cmd.Wait(); close(done) }()
	select {
	case <-done:
	case <-time.After(2 * time.Second):
		s.cmd.Process.Kill()
	}
}

// Reset starts a new path: all declarations and assertions are dropped.
func (s *Solver) Reset() {
	s.send("(reset)")
	s.preamble()
}

func (s *Solver) ensure(t *Term) {
	switch t.op {
	case OpConst:
		return
	case OpVar:
		if !s.declared[t.name] {
			s.declared[t.name] = true
			s.send(fmt.Sprintf("(declare-const |%s| %s)", t.name, t.sort.SMT()))
		}
		return
	}
	if s.defined[t.id] {
		return
	}
	for _, a := range t.args {
		s.ensure(a)
	}
	s.defined[t.id] = true
	s.send(fmt.Sprintf("(define-fun t%d () %s %s)", t.id, t.sort.SMT(), t.body()))
}

func (s *Solver) Assert(t *Term) {
	s.ensure(t)
	s.send("(assert " + t.ref() + ")")
}

func (s *Solver) readLine() string {
	line, err := s.out.ReadString('\n')
	if err != nil {
		s.dead = true
		return "(error \"solver died\")"
	}
	return strings.TrimSpace(line)
}

func (s *Solver) check() Result {
	t0 := time.Now()
	s.send("(check-sat)")
	s.Stats.Queries++
	var r Result
	for {
		line := s.readLine()
		if line == "" {
			continue
		}
		switch {
		case line == "sat":
			r = Sat
			s.Stats.SatN++
		case line == "unsat":
			r = Unsat
			s.Stats.UnsatN++
		case line == "unknown" || line == "timeout":
			r = Unknown
			s.Stats.UnknownN++
		case strings.HasPrefix(line, "(error"):
			s.Stats.Errors++
			if s.dead {
				s.Stats.Time += time.Since(t0)
				return Unknown
			}
			continue // the check-sat answer still follows
		default:
			s.Stats.Errors++
			continue
		}
		break
	}
	s.Stats.Time += time.Since(t0)
	if s.Stats.Errors > 0 && r != Unknown {
		// an earlier command was rejected: nothing this process says is trusted
		return Unknown
	}
	return r
}

// Check decides the current assertion set.
func (s *Solver) Check() Result { return s.check() }

// CheckWith decides assertions ∧ t without keeping t.
func (s *Solver) CheckWith(t *Term) Result {
	s.ensure(t)
	s.send("(push 1)")
	s.send("(assert " + t.ref() + ")")
	r := s.check()
	s.send("(pop 1)")
	return r
}

// ModelWith returns a model of assertions ∧ t for the given variables.
func (s *Solver) ModelWith(t *Term, vars []*Term) (Model, Result) {
	if t != nil {
		s.ensure(t)
	}
	for _, v := range vars {
		s.ensure(v)
	}
	s.send("(push 1)")
	if t != nil {
		s.send("(assert " + t.ref() + ")")
	}
	r := s.check()
	var m Model
	if r == Sat {
		m = s.getValues(vars)
	}
	s.send("(pop 1)")
	return m, r
}

func (s *Solver) getValues(vars []*Term) Model {
	m := Model{}
	if len(vars) == 0 {
		return m
	}
	var sb strings.Builder
	sb.WriteString("(get-value (")
	for _, v := range vars {
		sb.WriteString(v.ref())
		sb.WriteByte(' ')
	}
	sb.WriteString("))")
	s.send(sb.String())
	// read a balanced s-expression
	depth := 0
	started := false
	var text strings.Builder
	for !started || depth > 0 {
		line := s.readLine()
		if s.dead {
			return m
		}
		inBar := false
		for _, c := range line {
			switch {
			case c == '|':
				inBar = !inBar
			case inBar:
			case c == '(':
				depth++
				started = true
			case c == ')':
				depth--
			}
		}
		text.WriteString(line)
		text.WriteByte(' ')
	}
	parseValues(text.String(), m)
	return m
}

// parseValues parses ((|name| value) ...) where value is #x.., #b.., true,
// false, (fp #b. #b... #x...) or (_ bvN w) / special fp constants.
func parseValues(txt string, m Model) {
	toks := tokenize(txt)
	i := 0
	if i < len(toks) && toks[i] == "(" {
		i++
	}
	for i < len(toks) && toks[i] == "(" {
		i++
		name := strings.Trim(toks[i], "|")
		i++
		var v uint64
		v, i = parseValue(toks, i)
		m[name] = v
		for i < len(toks) && toks[i] != ")" {
			i++
		}
		i++
	}
}

func tokenize(s string) []string {
	var toks []string
	i := 0
	for i < len(s) {
		c := s[i]
		switch {
		case c == ' ' || c == '\n' || c == '\t' || c == '\r':
			i++
		case c == '(' || c == ')':
			toks = append(toks, string(c))
			i++
		case c == '|':
			j := strings.IndexByte(s[i+1:], '|')
			toks = append(toks, s[i:i+j+2])
			i += j + 2
		default:
			j := i
			for j < len(s) && !strings.ContainsRune(" \n\t\r()", rune(s[j])) {
				j++
			}
			toks = append(toks, s[i:j])
			i = j
		}
	}
	return toks
}

func parseBits(tok string) (uint64, int) {
	if strings.HasPrefix(tok, "#x") {
		v, _ := strconv.ParseUint(tok[2:], 16, 64)
		return v, 4 * (len(tok) - 2)
	}
	if strings.HasPrefix(tok, "#b") {
		v, _ := strconv.ParseUint(tok[2:], 2, 64)
		return v, len(tok) - 2
	}
	return 0, 0
}

func parseValue(toks []string, i int) (uint64, int) {
	t := toks[i]
	switch {
	case t == "true":
		return 1, i + 1
	case t == "false":
		return 0, i + 1
	case strings.HasPrefix(t, "#"):
		v, _ := parseBits(t)
		return v, i + 1
	case t == "(":
		// (fp s e m) | (_ bvN w) | (_ +zero 11 53) | (_ NaN 11 53) ...
		if toks[i+1] == "fp" {
			sg, _ := parseBits(toks[i+2])
			ex, _ := parseBits(toks[i+3])
			mn, _ := parseBits(toks[i+4])
			return sg<<63 | ex<<52 | mn, i + 6
		}
		if toks[i+1] == "_" {
			k := toks[i+2]
			j := i + 3
			for toks[j] != ")" {
				j++
			}
			switch {
			case strings.HasPrefix(k, "bv"):
				v, _ := strconv.ParseUint(k[2:], 10, 64)
				return v, j + 1
			case k == "+zero":
				return 0, j + 1
			case k == "-zero":
				return 1 << 63, j + 1
			case k == "+oo":
				return 0x7ff << 52, j + 1
			case k == "-oo":
				return 0xfff << 52, j + 1
			case k == "NaN":
				return 0x7ff8 << 48, j + 1
			}
			return 0, j + 1
		}
	}
	return 0, i + 1
}
