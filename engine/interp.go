package main

// Symbolic interpreter for go/ssa. One Interp per explored path.
// Structure follows golang.org/x/tools/go/ssa/interp (BSD licence), with
// scalar values that may be SMT terms and with an explicit scheduler.

import (
	"fmt"
	"os"
	"go/token"
	"go/types"
	"strings"
	"sync"
	"time"

	"golang.org/x/tools/go/ssa"
)

// ---- outcome signalling

type abortSignal struct{} // unwinds every interpreter goroutine of a path

type targetPanic struct {
	v    Value
	msg  string
	site string
}

type Outcome struct {
	Kind string // completed | panic | unsupported | budget | bound | assume | infeasible | deadlock | engine
	Msg  string
	Site string
}

// ---- program-wide, read-only data shared by all workers

type fnInfo struct {
	slots map[ssa.Value]int
	n     int
}

type Program struct {
	prog   *ssa.Program
	sizes  types.Sizes
	fnInfo sync.Map // *ssa.Function -> *fnInfo
	consts sync.Map // *ssa.Const -> Value
	stubs  map[string]*ssa.Function // callee name -> harness replacement
	initAllow map[string]bool       // packages whose init is executed
	mainPkgs  []*ssa.Package
}

func (p *Program) info(fn *ssa.Function) *fnInfo {
	if v, ok := p.fnInfo.Load(fn); ok {
		return v.(*fnInfo)
	}
	fi := &fnInfo{slots: map[ssa.Value]int{}}
	add := func(v ssa.Value) {
		fi.slots[v] = fi.n
		fi.n++
	}
	for _, p := range fn.Params {
		add(p)
	}
	for _, fv := range fn.FreeVars {
		add(fv)
	}
	for _, b := range fn.Blocks {
		for _, ins := range b.Instrs {
			if v, ok := ins.(ssa.Value); ok {
				add(v)
			}
		}
	}
	p.fnInfo.Store(fn, fi)
	return fi
}

// ---- per-path interpreter

type deferred struct {
	fn   Value
	args []Value
	tail *deferred
}

type frame struct {
	in        *Interp
	th        *thread
	caller    *frame
	fn        *ssa.Function
	fi        *fnInfo
	regs      []Value
	block     *ssa.BasicBlock
	prev      *ssa.BasicBlock
	defers    *deferred
	result    Value
	panicking bool
	panic     interface{}
	curInstr  ssa.Instruction
	skipPhis  bool
}

type Interp struct {
	P        *Program
	ex       *PathCtx
	tb       *TermBank
	globals  map[*ssa.Global]Ptr
	steps    int64
	budget   int64
	threads  []*thread
	cur      *thread
	aborting bool
	outcome  *Outcome
	mu       sync.Mutex
	sliceData map[Ptr][]Value // unsafe.SliceData bookkeeping
	objTags  map[any]string
	sched    *schedState
	funcsSeen map[*ssa.Function]bool
	observations []Observation
	nativeCache map[string]any
	decodeCache map[decodeKey]decoded
	concretizeInts bool
	initRunning map[string]bool
	noIfConv bool
	ifconvs int
	trace    bool
	depth    int
	touched  map[string]bool // keys looked up in traced maps
}

type Observation struct {
	Name string
	Val  Value
}

func (in *Interp) abort(kind, msg, site string) {
	if in.outcome == nil {
		in.outcome = &Outcome{Kind: kind, Msg: msg, Site: site}
	}
	in.aborting = true
	panic(abortSignal{})
}

func (in *Interp) unsupported(what string) {
	in.abort("unsupported", what, in.where())
}

func (in *Interp) where() string {
	if in.cur != nil && in.cur.fr != nil {
		return in.cur.fr.site()
	}
	return ""
}

func (fr *frame) site() string {
	if fr == nil {
		return ""
	}
	pos := token.NoPos
	if fr.curInstr != nil {
		pos = fr.curInstr.Pos()
	}
	s := fr.fn.String()
	if pos != token.NoPos {
		p := fr.fn.Prog.Fset.Position(pos)
		s += fmt.Sprintf(" (%s:%d)", shortFile(p.Filename), p.Line)
	}
	return s
}

func shortFile(f string) string {
	if strings.HasPrefix(f, repoDir+"/") {
		return f[len(repoDir)+1:]
	}
	if i := strings.LastIndex(f, "/src/"); i >= 0 {
		return f[i+5:]
	}
	return f
}

// stack renders the interpreted call stack (innermost first).
func (fr *frame) stack(max int) []string {
	var out []string
	for f := fr; f != nil && len(out) < max; f = f.caller {
		out = append(out, f.site())
	}
	return out
}

// firstServitorSite returns the innermost frame that is servitor code.
func (fr *frame) servitorSite() string {
	for f := fr; f != nil; f = f.caller {
		if f.fn.Pkg != nil && strings.HasPrefix(f.fn.Pkg.Pkg.Path(), "servitor") && !strings.Contains(f.fn.Name(), "Verif") {
			return f.site()
		}
		if f.fn.Pkg == nil && f.fn.Origin() != nil && f.fn.Origin().Pkg != nil && strings.HasPrefix(f.fn.Origin().Pkg.Pkg.Path(), "servitor") {
			return f.site()
		}
	}
	return fr.site()
}

func (in *Interp) throw(fr *frame, msg string) {
	site := ""
	if fr != nil {
		site = fr.servitorSite()
	}
	panic(&targetPanic{v: in.runtimeError(msg), msg: "runtime error: " + msg, site: site})
}

// runtimeError builds an interface value of an error-like type for runtime
// panics; recovered values are only ever printed or re-thrown.
func (in *Interp) runtimeError(msg string) Value {
	return Iface{T: types.Typ[types.String], V: Str{S: "runtime error: " + msg}}
}

func (fr *frame) get(v ssa.Value) Value {
	switch v := v.(type) {
	case *ssa.Const:
		return fr.in.constValue(v)
	case *ssa.Global:
		return fr.in.global(v)
	case *ssa.Function:
		return v
	case *ssa.Builtin:
		return v
	case nil:
		return nil
	}
	if i, ok := fr.fi.slots[v]; ok {
		return fr.regs[i]
	}
	panic(fmt.Sprintf("get: no slot for %T %s in %s", v, v.Name(), fr.fn))
}

func (fr *frame) set(v ssa.Value, x Value) {
	fr.regs[fr.fi.slots[v]] = x
}

func (in *Interp) global(g *ssa.Global) Ptr {
	if p, ok := in.globals[g]; ok {
		return p
	}
	// lazily created zero cell; initialisers run explicitly (see runInit)
	if g.Pkg != nil && g.Pkg.Pkg.Path() == "time" && (g.Name() == "Local" || g.Name() == "UTC") {
		// the two location pointers are opaque native handles
		p := new(Value)
		if g.Name() == "Local" {
			*p = Native{time.Local}
		} else {
			*p = Native{time.UTC}
		}
		in.globals[g] = p
		return p
	}
	if g.Pkg != nil {
		path := g.Pkg.Pkg.Path()
		if !strings.HasPrefix(path, "servitor") && !in.P.initAllow[path] && !in.initRunning[path] && !strings.HasPrefix(g.Name(), "init$") && !strings.HasPrefix(path, "github.com/yuin/goldmark") {
			// a package outside the allow-list: run its initialiser on demand if it
			// is small (changed code may import library packages the pinned tree
			// does not use); big table-building initialisers stay unsupported
			if initf := g.Pkg.Func("init"); initf != nil && in.smallInit(g.Pkg) {
				in.initRunning[path] = true
				in.runInit(in.cur.fr, g.Pkg)
				if p, ok := in.globals[g]; ok {
					return p
				}
			} else {
				in.unsupported("global " + g.String() + " of a package whose initialiser is not executed")
			}
		}
	}
	p := new(Value)
	*p = zero(deref(g.Type()))
	in.globals[g] = p
	return p
}

// storeInto assigns v to the cell at p. Structs and arrays are overwritten
// field by field, in place, so that pointers to their fields stay valid (as
// in real memory).
func storeInto(p Ptr, v Value) {
	switch nv := v.(type) {
	case Struct:
		if old, ok := (*p).(Struct); ok && len(old) == len(nv) {
			for i := range old {
				storeInto(&old[i], nv[i])
			}
			return
		}
	case Array:
		if old, ok := (*p).(Array); ok && len(old) == len(nv) {
			for i := range old {
				storeInto(&old[i], nv[i])
			}
			return
		}
	}
	*p = copyVal(v)
}

func deref(t types.Type) types.Type {
	if p, ok := t.Underlying().(*types.Pointer); ok {
		return p.Elem()
	}
	panic(fmt.Sprintf("deref of non-pointer %v", t))
}

func (in *Interp) constValue(c *ssa.Const) Value {
	if v, ok := in.P.consts.Load(c); ok {
		return v
	}
	v := makeConst(c)
	in.P.consts.Store(c, v)
	return v
}

func makeConst(c *ssa.Const) Value {
	if c.Value == nil {
		return zero(c.Type())
	}
	t := c.Type().Underlying()
	if b, ok := t.(*types.Basic); ok {
		if w, signed, ok := intWidth(b); ok {
			if signed {
				return mkInt(w, uint64(c.Int64()))
			}
			return mkInt(w, c.Uint64())
		}
		switch {
		case b.Info()&types.IsBoolean != 0:
			return SBool{V: constantBool(c)}
		case b.Info()&types.IsString != 0:
			return Str{S: constantString(c)}
		case b.Info()&types.IsFloat != 0:
			w := uint8(64)
			if b.Kind() == types.Float32 {
				w = 32
			}
			return SFloat{V: c.Float64(), W: w}
		}
	}
	if _, ok := t.(*types.Interface); ok {
		return zero(c.Type())
	}
	panic(fmt.Sprintf("makeConst: %v : %v", c, c.Type()))
}

// ---- running

func (in *Interp) call(caller *frame, fn Value, args []Value) Value {
	switch fn := fn.(type) {
	case *ssa.Function:
		if fn == nil {
			in.throw(caller, "invalid memory address or nil pointer dereference (call of nil func)")
		}
		return in.callSSA(caller, fn, args, nil)
	case *Closure:
		return in.callSSA(caller, fn.Fn, args, fn.Env)
	case *ssa.Builtin:
		return in.callBuiltin(caller, fn, args)
	case nativeMethod:
		return in.invokeNative(caller, fn.recv, fn.name, args)
	}
	panic(fmt.Sprintf("cannot call %T", fn))
}

func fnKey(fn *ssa.Function) string {
	if o := fn.Origin(); o != nil {
		return o.String()
	}
	return fn.String()
}

func (in *Interp) callSSA(caller *frame, fn *ssa.Function, args []Value, env []Value) Value {
	if in.aborting {
		panic(abortSignal{})
	}
	key := fnKey(fn)
	if fn.Parent() == nil {
		if stub, ok := in.P.stubs[key]; ok && (caller == nil || caller.fn != stub) {
			fn = stub
			key = fnKey(fn)
		}
		if fn.Synthetic == "package initializer" {
			in.runInit(caller, fn.Pkg)
			return nil
		}
		if intr, ok := intrinsics[key]; ok {
			th := in.cur
			saved := th.fr
			r, handled := intr(in, caller, fn, args)
			th.fr = saved
			if handled {
				return r
			}
		}
		if nf, ok := nativeFuncs[key]; ok {
			in.concretizeInts = key == "strings.Repeat"
			if r, handled := in.callNative(caller, nf, fn.Signature, args); handled {
				return r
			}
		}
	}
	if fn.Blocks == nil {
		in.unsupported("external function " + key)
	}
	if traceCalls && in.steps < traceLimit {
		fmt.Fprintf(os.Stderr, "%*s%s %s\n", in.depth, "", key, clip(showArgs(args)))
	}
	in.depth++
	if in.depth > 2000 {
		in.abort("budget", "call depth > 2000", caller.site())
	}
	defer func() { in.depth-- }()
	if in.funcsSeen != nil {
		in.funcsSeen[fn] = true
	}
	fi := in.P.info(fn)
	fr := &frame{in: in, th: in.cur, caller: caller, fn: fn, fi: fi, regs: make([]Value, fi.n)}
	if len(args) != len(fn.Params) {
		panic(fmt.Sprintf("callSSA %s: %d args for %d params", fn, len(args), len(fn.Params)))
	}
	for i := range fn.Params {
		fr.regs[i] = args[i]
	}
	for i := range fn.FreeVars {
		fr.regs[len(fn.Params)+i] = env[i]
	}
	for _, l := range fn.Locals {
		p := new(Value)
		*p = zero(deref(l.Type()))
		fr.set(l, p)
	}
	fr.block = fn.Blocks[0]
	th := in.cur
	saved := th.fr
	th.fr = fr
	for fr.block != nil {
		in.runFrame(fr)
	}
	th.fr = saved
	return fr.result
}

func (in *Interp) runFrame(fr *frame) {
	defer func() {
		if fr.block == nil {
			return // normal return
		}
		r := recover()
		if r == nil {
			return
		}
		if _, ok := r.(abortSignal); ok {
			panic(r)
		}
		if _, ok := r.(*targetPanic); !ok {
			// engine bug: surface it with the interpreted location
			panic(fmt.Sprintf("engine panic in %s: %v", fr.site(), r))
		}
		fr.panicking = true
		fr.panic = r
		in.cur.fr = fr
		fr.runDefers()
		// recovered
		fr.block = fr.fn.Recover
		if fr.block == nil {
			fr.result = zeroResult(fr.fn)
		}
	}()
	for {
		b := fr.block
		for _, ins := range b.Instrs {
			in.steps++
			if in.steps > in.budget {
				in.abort("budget", "step budget exhausted", fr.site())
			}
			fr.curInstr = ins
			switch in.visit(fr, ins) {
			case kReturn:
				return
			case kJump:
				goto next
			}
		}
		panic("block fell through: " + fr.fn.String())
	next:
	}
}

func zeroResult(fn *ssa.Function) Value {
	res := fn.Signature.Results()
	switch res.Len() {
	case 0:
		return nil
	case 1:
		return zero(res.At(0).Type())
	}
	return zero(res)
}

func (fr *frame) runDefers() {
	for d := fr.defers; d != nil; d = d.tail {
		fr.runDefer(d)
	}
	fr.defers = nil
	if fr.panicking {
		panic(fr.panic)
	}
}

func (fr *frame) runDefer(d *deferred) {
	var ok bool
	defer func() {
		if !ok {
			r := recover()
			if _, isAbort := r.(abortSignal); isAbort {
				panic(r)
			}
			if _, isT := r.(*targetPanic); !isT {
				panic(r)
			}
			fr.panicking = true
			fr.panic = r
		}
	}()
	fr.in.call(fr, d.fn, d.args)
	ok = true
}

type nativeMethod struct {
	recv Native
	name string
}

type continuation int

const (
	kNext continuation = iota
	kReturn
	kJump
)

func (in *Interp) visit(fr *frame, instr ssa.Instruction) continuation {
	switch instr := instr.(type) {
	case *ssa.DebugRef:
	case *ssa.UnOp:
		fr.set(instr, in.unop(fr, instr, fr.get(instr.X)))
	case *ssa.BinOp:
		fr.set(instr, in.binop(fr, instr.Op, instr.X.Type(), fr.get(instr.X), fr.get(instr.Y)))
	case *ssa.Call:
		fn, args := in.prepareCall(fr, &instr.Call)
		fr.set(instr, in.call(fr, fn, args))
		fr.curInstr = instr
	case *ssa.ChangeInterface:
		fr.set(instr, fr.get(instr.X))
	case *ssa.ChangeType:
		fr.set(instr, fr.get(instr.X))
	case *ssa.Convert:
		fr.set(instr, in.conv(fr, instr.Type(), instr.X.Type(), fr.get(instr.X)))
	case *ssa.SliceToArrayPointer:
		in.unsupported("SliceToArrayPointer")
	case *ssa.MakeInterface:
		fr.set(instr, Iface{T: instr.X.Type(), V: fr.get(instr.X)})
	case *ssa.Extract:
		fr.set(instr, fr.get(instr.Tuple).(Tuple)[instr.Index])
	case *ssa.Slice:
		fr.set(instr, in.slice(fr, instr, fr.get(instr.X), fr.get(instr.Low), fr.get(instr.High), fr.get(instr.Max)))
	case *ssa.Return:
		switch len(instr.Results) {
		case 0:
		case 1:
			fr.result = fr.get(instr.Results[0])
		default:
			res := make(Tuple, len(instr.Results))
			for i, r := range instr.Results {
				res[i] = fr.get(r)
			}
			fr.result = res
		}
		fr.block = nil
		return kReturn
	case *ssa.RunDefers:
		fr.runDefers()
	case *ssa.Panic:
		v := fr.get(instr.X)
		panic(&targetPanic{v: v, msg: in.panicMessage(v), site: fr.servitorSite()})
	case *ssa.Store:
		p := fr.get(instr.Addr).(Ptr)
		if p == nil {
			in.throw(fr, "invalid memory address or nil pointer dereference")
		}
		in.onWrite(fr, p)
		storeInto(p, fr.get(instr.Val))
	case *ssa.If:
		c := fr.get(instr.Cond).(SBool)
		var taken bool
		if c.T != nil {
			if _, known := in.ex.decided[c.T]; !known && !in.noIfConv && in.tryIfConvert(fr, instr, c.T) {
				in.ifconvs++
				return kJump
			}
			taken = in.ex.Branch(c.T)
		} else {
			taken = c.V
		}
		succ := 1
		if taken {
			succ = 0
		}
		fr.prev, fr.block = fr.block, fr.block.Succs[succ]
		in.phis(fr)
		return kJump
	case *ssa.Jump:
		fr.prev, fr.block = fr.block, fr.block.Succs[0]
		in.phis(fr)
		return kJump
	case *ssa.Defer:
		fn, args := in.prepareCall(fr, &instr.Call)
		fr.defers = &deferred{fn: fn, args: args, tail: fr.defers}
	case *ssa.Go:
		fn, args := in.prepareCall(fr, &instr.Call)
		in.spawn(fr, fn, args)
	case *ssa.Alloc:
		var addr Ptr
		if instr.Heap {
			addr = new(Value)
			fr.set(instr, addr)
		} else {
			addr = fr.get(instr).(Ptr)
		}
		storeInto(addr, zero(deref(instr.Type())))
	case *ssa.MakeSlice:
		tElt0 := instr.Type().Underlying().(*types.Slice).Elem()
		in.boundMake(fr, fr.get(instr.Cap), tElt0)
		in.boundMake(fr, fr.get(instr.Len), tElt0)
		ln := in.concInt(fr, fr.get(instr.Len), "make len")
		cp := in.concInt(fr, fr.get(instr.Cap), "make cap")
		if ln < 0 || ln > cp {
			in.throw(fr, "makeslice: len out of range")
		}
		if cp > 1<<24 {
			in.abort("bound", fmt.Sprintf("make of %d elements", cp), fr.site())
		}
		tElt := instr.Type().Underlying().(*types.Slice).Elem()
		b := make([]Value, cp)
		for i := range b {
			b[i] = zero(tElt)
		}
		fr.set(instr, Slice{B: b, L: int(ln)})
	case *ssa.MakeMap:
		fr.set(instr, newMap(instr.Type().Underlying().(*types.Map).Key()))
	case *ssa.Range:
		fr.set(instr, in.rangeIter(fr, fr.get(instr.X), instr.X.Type()))
	case *ssa.Next:
		fr.set(instr, fr.get(instr.Iter).(iter).next(in, fr))
	case *ssa.FieldAddr:
		p := fr.get(instr.X).(Ptr)
		if p == nil {
			in.throw(fr, "invalid memory address or nil pointer dereference")
		}
		fr.set(instr, Ptr(&(*p).(Struct)[instr.Field]))
	case *ssa.Field:
		fr.set(instr, fr.get(instr.X).(Struct)[instr.Field])
	case *ssa.IndexAddr:
		x := fr.get(instr.X)
		switch x := x.(type) {
		case Slice:
			i := in.index(fr, fr.get(instr.Index), x.L)
			fr.set(instr, Ptr(&x.B[i]))
		case Ptr:
			if x == nil {
				in.throw(fr, "invalid memory address or nil pointer dereference")
			}
			a := (*x).(Array)
			i := in.index(fr, fr.get(instr.Index), len(a))
			fr.set(instr, Ptr(&a[i]))
		default:
			panic(fmt.Sprintf("IndexAddr on %T", x))
		}
	case *ssa.Index:
		x := fr.get(instr.X)
		switch x := x.(type) {
		case Array:
			i := in.index(fr, fr.get(instr.Index), len(x))
			fr.set(instr, x[i])
		case Str:
			i := in.index(fr, fr.get(instr.Index), len(x.S))
			fr.set(instr, strByte(x, i))
		default:
			panic(fmt.Sprintf("Index on %T", x))
		}
	case *ssa.Lookup:
		fr.set(instr, in.lookup(fr, instr, fr.get(instr.X), fr.get(instr.Index)))
	case *ssa.MapUpdate:
		m := fr.get(instr.Map).(*Map)
		if m == nil {
			in.throw(fr, "assignment to entry in nil map")
		}
		in.mapStore(fr, m, fr.get(instr.Key), copyVal(fr.get(instr.Value)))
	case *ssa.TypeAssert:
		fr.set(instr, in.typeAssert(fr, instr, fr.get(instr.X)))
	case *ssa.MakeClosure:
		env := make([]Value, len(instr.Bindings))
		for i, b := range instr.Bindings {
			env[i] = fr.get(b)
		}
		fr.set(instr, &Closure{Fn: instr.Fn.(*ssa.Function), Env: env})
	case *ssa.Phi:
		// handled at block entry
	default:
		in.unsupported(fmt.Sprintf("instruction %T", instr))
	}
	return kNext
}

// phis evaluates the phi nodes of the block just entered (parallel copy).
func (in *Interp) phis(fr *frame) {
	b := fr.block
	var idx = -1
	var vals []Value
	for _, ins := range b.Instrs {
		phi, ok := ins.(*ssa.Phi)
		if !ok {
			break
		}
		if idx < 0 {
			for i, p := range b.Preds {
				if p == fr.prev {
					idx = i
					break
				}
			}
		}
		vals = append(vals, fr.get(phi.Edges[idx]))
	}
	for i, v := range vals {
		fr.set(b.Instrs[i].(*ssa.Phi), v)
	}
}

func (in *Interp) prepareCall(fr *frame, call *ssa.CallCommon) (Value, []Value) {
	v := fr.get(call.Value)
	var fn Value
	var args []Value
	if call.Method == nil {
		fn = v
	} else {
		recv := in.resolveIface(fr, v)
		if recv.T == nil {
			in.throw(fr, "invalid memory address or nil pointer dereference (method call on nil interface)")
		}
		if n, ok := recv.V.(Native); ok {
			m := call.Method.Name()
			var nargs []Value
			for _, a := range call.Args {
				nargs = append(nargs, fr.get(a))
			}
			return nativeMethod{n, m}, nargs
		}
		f := in.P.prog.LookupMethod(recv.T, call.Method.Pkg(), call.Method.Name())
		if f == nil {
			panic(fmt.Sprintf("no method %s on %v", call.Method.Name(), recv.T))
		}
		fn = f
		args = append(args, recv.V)
	}
	for _, a := range call.Args {
		args = append(args, fr.get(a))
	}
	return fn, args
}

// index checks an index against a length, forking on symbolic indices.
func (in *Interp) index(fr *frame, iv Value, n int) int {
	i := iv.(SInt)
	if i.T != nil {
		// in range?
		w := uint(i.W)
		inRange := in.tb.Bool(true)
		if uint64(n) <= mask(w) {
			inRange = in.tb.Bin(OpBvUlt, i.T, in.tb.Const(bvSort(w), uint64(n)))
		}
		if !in.ex.Branch(inRange) {
			in.throw(fr, fmt.Sprintf("index out of range [symbolic] with length %d", n))
		}
		return int(in.ex.Concretize(i.T))
	}
	k := i.Signed()
	if i.W == 64 && i.V > uint64(1)<<62 && k > 0 {
		k = -1
	}
	if k < 0 || k >= int64(n) {
		in.throw(fr, fmt.Sprintf("index out of range [%d] with length %d", k, n))
	}
	return int(k)
}

// boundMake splits a symbolic make() size into "small" (continues, to be
// concretised), "beyond what the runtime can allocate" (the runtime panics)
// and the range in between, which is outside what a run can claim.
func (in *Interp) boundMake(fr *frame, v Value, elem types.Type) {
	x, ok := v.(SInt)
	if !ok || x.T == nil {
		return
	}
	tb := in.tb
	t := tb.Resize(x.T, 64, true)
	if in.ex.Branch(tb.Bin(OpBvUle, t, tb.Const(SoBV64, 1<<16))) {
		return
	}
	es := uint64(in.P.sizes.Sizeof(elem))
	if es == 0 {
		es = 1
	}
	maxElems := (uint64(1) << 47) / es
	if in.ex.Branch(tb.Bin(OpBvUlt, tb.Const(SoBV64, maxElems), t)) {
		in.throw(fr, "makeslice: len out of range")
	}
	in.abort("bound", "make() of a symbolic size between 65536 and the allocation limit", fr.site())
}

// concInt forces an integer to a concrete value (forking over its feasible
// values when symbolic).
func (in *Interp) concInt(fr *frame, v Value, what string) int64 {
	i := v.(SInt)
	if i.T != nil {
		return sext(in.ex.Concretize(i.T), uint(i.W))
	}
	return i.Signed()
}

func strByte(s Str, i int) SInt {
	if s.Sym != nil && s.Sym[i] != nil {
		return SInt{W: 8, T: s.Sym[i]}
	}
	return SInt{W: 8, V: uint64(s.S[i])}
}

func (in *Interp) panicMessage(v Value) string {
	if f, ok := v.(Iface); ok {
		if f.T == nil {
			return "panic(nil)"
		}
		switch x := f.V.(type) {
		case Str:
			return concretizeStr(x, nil)
		}
		return "panic: " + showValue(v, nil, 0)
	}
	return showValue(v, nil, 0)
}

// onWrite is the hook for the race/footprint monitors.
func (in *Interp) onWrite(fr *frame, p Ptr) {
	if in.sched != nil && in.sched.monitor != nil {
		in.accessDeep(fr, p, true)
	}
}
func (in *Interp) onRead(fr *frame, p Ptr) {
	if in.sched != nil && in.sched.monitor != nil {
		in.accessDeep(fr, p, false)
	}
}

// accessDeep records an access to a cell and, for struct and array cells, to
// every field/element cell inside it (a whole-struct copy touches them all).
func (in *Interp) accessDeep(fr *frame, p Ptr, write bool) {
	in.sched.monitor.access(in, fr, p, write)
	switch v := (*p).(type) {
	case Struct:
		for i := range v {
			in.accessDeep(fr, &v[i], write)
		}
	case Array:
		if len(v) <= 64 {
			for i := range v {
				in.accessDeep(fr, &v[i], write)
			}
		}
	}
}

func (in *Interp) smallInit(pkg *ssa.Package) bool {
	f := pkg.Func("init")
	n := 0
	for _, b := range f.Blocks {
		n += len(b.Instrs)
	}
	// global initialisers are inlined in init; function-valued ones are calls
	return n < 400
}

// ---- package initialisation

func (in *Interp) runInit(caller *frame, pkg *ssa.Package) {
	path := pkg.Pkg.Path()
	if !in.P.initAllow[path] && !in.initRunning[path] && !strings.HasPrefix(path, "servitor") {
		return
	}
	if path == "servitor/verifrt" {
		return // every verifrt function is an engine intrinsic
	}
	if path == "errors" {
		// errors.init also builds a reflectlite type used only by errors.As
		guard := pkg.Var("init$guard")
		if g := in.global(guard); (*g).(SBool).V {
			return
		} else {
			*g = SBool{V: true}
		}
		e := in.call(caller, pkg.Func("New"), []Value{Str{S: "unsupported operation"}})
		*in.global(pkg.Var("ErrUnsupported")) = e
		return
	}
	fn := pkg.Func("init")
	// run the body directly (bypassing callSSA's init interception)
	fi := in.P.info(fn)
	fr := &frame{in: in, th: in.cur, caller: caller, fn: fn, fi: fi, regs: make([]Value, fi.n)}
	for _, l := range fn.Locals {
		p := new(Value)
		*p = zero(deref(l.Type()))
		fr.set(l, p)
	}
	fr.block = fn.Blocks[0]
	saved := in.cur.fr
	in.cur.fr = fr
	for fr.block != nil {
		in.runFrame(fr)
	}
	in.cur.fr = saved
}

var traceCalls = os.Getenv("GOSYM_TRACE") != ""
var traceLimit int64 = 200000

func showArgs(args []Value) string {
	s := ""
	for _, a := range args {
		s += showValue(a, nil, 3) + ", "
	}
	return s
}
